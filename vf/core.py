"""Core of the verification framework: recorder, violations, Hypothesis driver.

Everything random is drawn by Hypothesis; the seed of every Hypothesis run is a
pure function of (VERIF_SEED, property, sub-check, shard).
"""
from __future__ import annotations

import hashlib
import json
import math
import os
import sys
import time
import traceback
from typing import Any, Callable, Iterable

VERIF_DIR = os.path.dirname(os.path.dirname(os.path.abspath(__file__)))
MAX_SAMPLES = 8


class Violation(Exception):
    """The property under test does not hold for the current case."""


class CaseTimeout(BaseException):
    """A generous per-case watchdog fired: the case is *inconclusive*."""


class time_limit:  # noqa: N801
    """``with time_limit(60): ...`` raises CaseTimeout after 60 s of wall time.

    A hit is never a violation (use ``ctx.rec.inconc``). Only the main thread
    of a worker may use it; nesting is not supported.
    """

    def __init__(self, seconds: float) -> None:
        self.seconds = seconds

    def __enter__(self) -> "time_limit":
        import signal

        def handler(_sig: int, _frm: Any) -> None:
            raise CaseTimeout()

        self.old = signal.signal(signal.SIGALRM, handler)
        # repeat every 2 s after the first hit: an exception raised inside a
        # destructor, a gc callback or library code with a catch-all handler
        # is swallowed, the next one gets through
        signal.setitimer(signal.ITIMER_REAL, self.seconds, 2.0)
        return self

    def __exit__(self, *a: Any) -> None:
        import signal
        signal.setitimer(signal.ITIMER_REAL, 0)
        signal.signal(signal.SIGALRM, self.old)


def isolated(fn: Callable[[], Any], seconds: float) -> Any:
    """Run ``fn()`` in a forked child; return its (picklable) result.

    A Violation raised in the child is re-raised here; any other exception
    becomes a HarnessError. If the child needs more than ``seconds`` it is
    killed and CaseTimeout is raised - the parent's state is untouched, which
    makes this the safe watchdog for code that cannot be interrupted cleanly
    (numba compilation, nested optimisation runs).
    """
    import pickle
    import select
    import signal
    rfd, wfd = os.pipe()
    pid = os.fork()
    if pid == 0:  # child
        code = 0
        try:
            os.close(rfd)
            try:
                payload = ("ok", fn())
            except Violation as v:
                payload = ("violation", str(v))
            except BaseException:  # noqa: BLE001
                payload = ("error", traceback.format_exc())
            data = pickle.dumps(payload)
            with os.fdopen(wfd, "wb") as f:
                f.write(data)
        except BaseException:  # noqa: BLE001
            code = 3
        finally:
            os._exit(code)
    os.close(wfd)
    chunks: list[bytes] = []
    deadline = time.monotonic() + seconds
    timed_out = False
    try:
        while True:
            left = deadline - time.monotonic()
            if left <= 0:
                timed_out = True
                break
            ready, _, _ = select.select([rfd], [], [], min(left, 1.0))
            if ready:
                chunk = os.read(rfd, 1 << 16)
                if not chunk:
                    break
                chunks.append(chunk)
    finally:
        os.close(rfd)
        if timed_out:
            try:
                os.kill(pid, signal.SIGKILL)
            except ProcessLookupError:
                pass
        _, status = os.waitpid(pid, 0)
    if timed_out:
        raise CaseTimeout()
    if not chunks:
        if os.WIFSIGNALED(status):
            raise Violation("the code under test crashed the interpreter with"
                            f" signal {os.WTERMSIG(status)}")
        raise HarnessError(f"isolated child exited with status {status}")
    kind, value = pickle.loads(b"".join(chunks))
    if kind == "ok":
        return value
    if kind == "violation":
        raise Violation(value)
    raise HarnessError("exception in isolated child:\n" + value)


class HarnessError(Exception):
    """The machinery itself is broken (never reported as a violation)."""


# ----------------------------------------------------------------------------
# JSON helpers
# ----------------------------------------------------------------------------

def jsonable(o: Any) -> Any:
    """Turn a case into plain JSON data (numpy scalars/arrays, tuples, sets)."""
    import numpy as np  # local: core may be imported before numpy is wanted
    if isinstance(o, (str, bool)) or o is None:
        return o
    if isinstance(o, (int, np.integer)):
        return int(o)
    if isinstance(o, (float, np.floating)):
        f = float(o)
        if math.isfinite(f):
            return f
        return {"__float__": repr(f)}
    if isinstance(o, np.ndarray):
        return jsonable(o.tolist())
    if isinstance(o, dict):
        return {str(k): jsonable(v) for k, v in o.items()}
    if isinstance(o, (list, tuple)):
        return [jsonable(v) for v in o]
    if isinstance(o, (set, frozenset)):
        return sorted(jsonable(v) for v in o)
    return repr(o)


def unjson(o: Any) -> Any:
    """Inverse of :func:`jsonable` for the non-finite float encoding."""
    if isinstance(o, dict):
        if len(o) == 1 and "__float__" in o:
            return float(o["__float__"])
        return {k: unjson(v) for k, v in o.items()}
    if isinstance(o, list):
        return [unjson(v) for v in o]
    return o


def canon(o: Any) -> str:
    return json.dumps(jsonable(o), sort_keys=True, separators=(",", ":"))


def case_hash(o: Any) -> str:
    return hashlib.blake2b(canon(o).encode(), digest_size=16).hexdigest()


def shorten(o: Any, limit: int = 1500) -> Any:
    """Samples written to the evidence are cut to a readable size."""
    s = canon(o)
    if len(s) <= limit:
        return jsonable(o)
    return {"truncated_json": s[:limit] + "...", "full_length": len(s)}


def derive_seed(*parts: Any) -> int:
    h = hashlib.blake2b("|".join(str(p) for p in parts).encode(),
                        digest_size=8).digest()
    return int.from_bytes(h, "big") >> 1  # 63 bit, non-negative


# ----------------------------------------------------------------------------
# Recorder
# ----------------------------------------------------------------------------

class Recorder:
    """Counts what a run actually explored."""

    def __init__(self) -> None:
        self.evaluations = 0
        self.nontrivial: set[str] = set()
        self.labels: dict[str, int] = {}
        self.samples: list[Any] = []
        self.nt_samples: list[Any] = []
        self.excluded: dict[str, int] = {}
        self.inconclusive: dict[str, int] = {}
        self.subreports: dict[str, dict] = {}
        self.violations: list[dict] = []
        self.known: list[str] = []
        self.notes: list[str] = []

    def case(self, case: Any, nontrivial: bool = False,
             labels: Iterable[str] = (), sample: Any = None) -> None:
        """Record one executed case (call it when the case passed)."""
        self.evaluations += 1
        for lab in labels:
            self.labels[lab] = self.labels.get(lab, 0) + 1
        shown = case if sample is None else sample
        if nontrivial:
            h = case_hash(case)
            if h not in self.nontrivial:
                self.nontrivial.add(h)
                if len(self.nt_samples) < MAX_SAMPLES:
                    self.nt_samples.append(shorten(shown))
        elif len(self.samples) < 3:
            self.samples.append(shorten(shown))

    def bulk(self, n: int, lab: str | None = None) -> None:
        """Count ``n`` cases of a bulk enumeration that passed (no hashing)."""
        self.evaluations += n
        if lab is not None:
            self.labels[lab] = self.labels.get(lab, 0) + n

    def label(self, lab: str, n: int = 1) -> None:
        self.labels[lab] = self.labels.get(lab, 0) + n

    def exclude(self, finding: str) -> None:
        self.excluded[finding] = self.excluded.get(finding, 0) + 1

    def inconc(self, why: str) -> None:
        self.inconclusive[why] = self.inconclusive.get(why, 0) + 1

    def subreport(self, name: str, **kw: Any) -> None:
        self.subreports[name] = jsonable(kw)

    def dump(self) -> dict:
        return {
            "evaluations": self.evaluations,
            "nontrivial": sorted(self.nontrivial),
            "labels": self.labels,
            "samples": self.samples,
            "nt_samples": self.nt_samples,
            "excluded": self.excluded,
            "inconclusive": self.inconclusive,
            "subreports": self.subreports,
            "violations": self.violations,
            "known": self.known,
            "notes": self.notes,
        }


def merge_dumps(dumps: list[dict]) -> dict:
    out: dict[str, Any] = {
        "evaluations": 0, "nontrivial": set(), "labels": {}, "samples": [],
        "nt_samples": [], "excluded": {}, "inconclusive": {},
        "subreports": {}, "violations": [], "known": [], "notes": []}
    for d in dumps:
        out["evaluations"] += d["evaluations"]
        out["nontrivial"].update(d["nontrivial"])
        for key in ("labels", "excluded", "inconclusive"):
            for k, v in d[key].items():
                out[key][k] = out[key].get(k, 0) + v
        out["samples"].extend(d["samples"])
        out["nt_samples"].extend(d["nt_samples"])
        for k, v in d["subreports"].items():
            if k in out["subreports"]:
                out["subreports"][k] = merge_subreport(
                    out["subreports"][k], v)
            else:
                out["subreports"][k] = v
        out["violations"].extend(d["violations"])
        for k in d["known"]:
            if k not in out["known"]:
                out["known"].append(k)
        for k in d["notes"]:
            if k not in out["notes"]:
                out["notes"].append(k)
    return out


def merge_subreport(a: dict, b: dict) -> dict:
    """Merge two shard-wise sub-reports: ints add, bools and, rest first."""
    res = dict(a)
    for k, v in b.items():
        if k not in res:
            res[k] = v
        elif isinstance(v, bool) and isinstance(res[k], bool):
            res[k] = res[k] and v
        elif isinstance(v, int) and isinstance(res[k], int):
            res[k] = res[k] + v
        elif isinstance(v, dict) and isinstance(res[k], dict):
            res[k] = merge_subreport(res[k], v)
    return res


# ----------------------------------------------------------------------------
# Known findings
# ----------------------------------------------------------------------------

def load_known_findings() -> list[dict]:
    path = os.path.join(VERIF_DIR, "known_findings.json")
    if not os.path.exists(path):
        return []
    with open(path, encoding="utf-8") as f:
        return json.load(f)["findings"]


# ----------------------------------------------------------------------------
# Context handed to the property modules
# ----------------------------------------------------------------------------

class Ctx:
    """What a property module gets: tier, seed, shard, recorder, drivers."""

    def __init__(self, prop: str, tier: str, seed: int, shard: int,
                 nshards: int, replay_dir: str) -> None:
        self.prop = prop
        self.tier = tier
        self.seed = seed
        self.shard = shard
        self.nshards = nshards
        self.rec = Recorder()
        self.replay_dir = replay_dir
        self.active_findings: set[str] = set()
        self.subs: dict[str, Callable] = {}
        self.replaying = False
        self.part = "main"
        self.warm = False  # warm-up worker: tiny counts, result discarded
        # the quick totals written in the modules were sized on a loaded
        # machine; META["quick_scale"] (default 3) multiplies them
        self.quick_scale = 1.0
        self.thorough_scale = 1.0  # META["thorough_scale"], default 4

    @property
    def boundscheck(self) -> bool:
        return self.part.endswith("@bc")

    # -- sizes ---------------------------------------------------------------
    @property
    def thorough(self) -> bool:
        return self.tier == "thorough"

    def n(self, quick: int, thorough: int) -> int:
        """Number of cases for *this shard* given totals for both tiers."""
        total = int(thorough * self.thorough_scale) if self.thorough \
            else int(quick * self.quick_scale)
        if self.warm:
            return min(total, 4)
        return max(1, -(-total // self.nshards))

    def pick(self, quick: Any, thorough: Any) -> Any:
        return thorough if self.thorough else quick

    def my_share(self, items: Iterable[Any]) -> Iterable[Any]:
        """Round-robin split of an enumeration over the shards."""
        got = 0
        for i, it in enumerate(items):
            if i % self.nshards == self.shard:
                yield it
                got += 1
                if self.warm and got >= 4:
                    return

    # -- violations ------------------------------------------------------------
    def violation(self, sub: str, case: Any, message: str) -> str:
        os.makedirs(self.replay_dir, exist_ok=True)
        body = {"property": self.prop, "sub": sub, "case": jsonable(case),
                "message": message[:4000], "seed": self.seed,
                "tier": self.tier, "shard": self.shard,
                "boundscheck": self.boundscheck}
        name = f"{self.prop}_{sub}_{case_hash(case)[:12]}.json"
        path = os.path.join(self.replay_dir, name)
        with open(path, "w", encoding="utf-8") as f:
            json.dump(body, f, indent=1, sort_keys=True)
        self.rec.violations.append(
            {"sub": sub, "replay": path, "message": message[:600]})
        return path

    # -- Hypothesis driver -----------------------------------------------------
    def given(self, sub: str, strategy: Any, fn: Callable[["Ctx", Any], None],
              quick: int, thorough: int, shrink: bool = True) -> None:
        """Run ``fn(ctx, case)`` on ``n`` cases drawn from ``strategy``.

        ``fn`` raises :class:`Violation` when the property fails. Any other
        exception escaping from ``fn`` is a harness error.
        """
        from hypothesis import HealthCheck, Phase, given, seed, settings
        n = self.n(quick, thorough)
        holder: dict[str, Any] = {}
        ctx = self

        trace = os.environ.get("VERIF_TRACE")

        # Hypothesis always starts with the simplest example of a strategy.
        # With few cases per shard (expensive families) every shard would
        # spend one of them on that same case: only shard 0 runs it.
        skip_simplest = [self.shard != 0]

        def test(case: Any) -> None:
            if skip_simplest[0]:
                skip_simplest[0] = False
                return
            if trace:  # debugging aid: the case being executed right now
                with open(f"{trace}.{ctx.prop}.{ctx.shard}", "w",
                          encoding="utf-8") as tf:
                    tf.write(sub + " " + canon(case) + "\n")
            try:
                fn(ctx, case)
            except CaseTimeout:
                ctx.rec.inconc("case_watchdog")
            except Violation as v:
                holder["case"] = case
                holder["msg"] = str(v)
                raise
            except BaseException:
                holder["harness"] = True  # raised by the check, not by
                raise                     # Hypothesis

        phases = [Phase.explicit, Phase.generate, Phase.target]
        if shrink:
            phases.append(Phase.shrink)
        runner = settings(
            max_examples=n + (1 if skip_simplest[0] else 0), database=None,
            deadline=None, report_multiple_bugs=False, derandomize=False,
            suppress_health_check=list(HealthCheck), phases=phases,
            print_blob=False)(
            seed(derive_seed(self.seed, self.prop, sub, self.shard))(
                given(strategy)(test)))
        try:
            runner()
        except Violation:
            self.violation(sub, holder["case"], holder["msg"])
        except BaseException as exc:  # noqa: BLE001
            if "case" in holder and _is_flaky(exc):
                # Hypothesis could not reproduce a violation it saw: report
                # the case that failed (it is re-checked by the replay).
                self.violation(sub, holder["case"], holder["msg"])
                self.rec.notes.append(f"{sub}: flaky under Hypothesis: {exc}")
            elif "case" in holder and "harness" not in holder \
                    and isinstance(exc, Exception):
                # an error inside Hypothesis itself while it was shrinking a
                # violation it had found (seen: ValueError from the text
                # shrinker): report the last failing case, unshrunk
                self.violation(sub, holder["case"], holder["msg"])
                self.rec.notes.append(
                    f"{sub}: Hypothesis failed while shrinking: "
                    f"{type(exc).__name__}: {exc}")
            else:
                raise

    def state_machine(self, sub: str, machine_cls: type, quick: int,
                      thorough: int, steps: int = 30) -> dict:
        """Run a rule based state machine. The machine records its own history
        in ``self.history`` (JSON data) and raises Violation from rules or
        invariants; the history of the failing (shrunk) run is the replay."""
        from hypothesis import HealthCheck, Phase, seed, settings
        from hypothesis.stateful import run_state_machine_as_test
        n = self.n(quick, thorough)
        holder: dict[str, Any] = {}
        ctx = self

        class Wrapped(machine_cls):  # type: ignore[misc,valid-type]
            CTX = ctx
            HOLDER = holder

        Wrapped.__name__ = machine_cls.__name__
        Wrapped.__qualname__ = machine_cls.__qualname__
        sett = settings(
            max_examples=n, stateful_step_count=steps, database=None,
            deadline=None, report_multiple_bugs=False,
            suppress_health_check=list(HealthCheck), print_blob=False,
            phases=[Phase.generate, Phase.shrink])
        try:
            run_state_machine_as_test(
                seed(derive_seed(self.seed, self.prop, sub, self.shard))(
                    Wrapped), settings=sett)
        except Violation as v:
            self.violation(sub, holder.get("history", {"history": "lost"}),
                           holder.get("msg", str(v)))
        except BaseException as exc:  # noqa: BLE001
            if "history" in holder and _is_flaky(exc):
                self.violation(sub, holder["history"], holder["msg"])
                self.rec.notes.append(f"{sub}: flaky under Hypothesis: {exc}")
            else:
                raise
        return holder

    def each(self, sub: str, cases: Iterable[Any],
             fn: Callable[["Ctx", Any], None], max_violations: int = 1) -> int:
        """Run ``fn`` over an explicit enumeration (no Hypothesis)."""
        bad = 0
        count = 0
        for case in cases:
            count += 1
            if self.warm and count > 4:
                break
            try:
                fn(self, case)
            except CaseTimeout:
                self.rec.inconc("case_watchdog")
            except Violation as v:
                bad += 1
                if bad <= max_violations:
                    self.violation(sub, case, str(v))
        return count


def _is_flaky(exc: BaseException) -> bool:
    name = type(exc).__name__
    return name in ("Flaky", "FlakyFailure", "FlakyStrategyDefinition",
                    "FlakyReplay")


# ----------------------------------------------------------------------------
# Calling the code under test
# ----------------------------------------------------------------------------

def sut(what: str, fn: Callable, *args: Any,
        allowed: tuple[type, ...] = (), **kw: Any) -> Any:
    """Call code under test: exceptions outside ``allowed`` are violations.

    Exceptions in ``allowed`` are re-raised unchanged (clean rejection).
    """
    try:
        return fn(*args, **kw)
    except allowed:
        raise
    except (KeyboardInterrupt, SystemExit, MemoryError, CaseTimeout):
        raise
    except Violation:
        raise
    except BaseException as exc:  # noqa: BLE001
        tb = traceback.extract_tb(sys.exc_info()[2])
        where = ""
        for fr in reversed(tb):
            if "moptipyapps" in fr.filename:
                where = f" at {os.path.basename(fr.filename)}:{fr.lineno}"
                break
        raise Violation(
            f"{what} raised {type(exc).__name__}: {exc}{where}") from exc


def require(cond: bool, msg: str | Callable[[], str]) -> None:
    if not cond:
        raise Violation(msg() if callable(msg) else msg)


class Timer:
    def __init__(self) -> None:
        self.t0 = time.monotonic()

    def s(self) -> float:
        return time.monotonic() - self.t0
