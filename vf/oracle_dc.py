"""Independent reference models for the dynamic-control package.

No import from moptipyapps: plain Python, ``fractions``, ``math`` and numpy
only. Rational formulas (polynomials, anchor distances, system equations)
are evaluated exactly with :class:`fractions.Fraction` on the exact values of
the float inputs; every reference returns the value together with a *scale*
(the sum of the absolute values of the terms that are added) so that the
caller can state a tolerance that is relative to the size of the terms and
therefore also valid when terms cancel. Transcendental references (networks,
peak functions, predefined laws) carry a first-order running rounding bound.
"""
from __future__ import annotations

import itertools
import math
from fractions import Fraction as Fr
from typing import Any, Callable, Sequence

import numpy as np

EPS = 2.0 ** -52


def _fr(x: float) -> Fr:
    return Fr(float(x))


# ----------------------------------------------------------------------------
# polynomials without constant term
# ----------------------------------------------------------------------------

def monomials(dim: int, degree: int) -> list[tuple[int, ...]]:
    """All exponent vectors with ``1 <= sum <= degree`` over ``dim``
    variables (enumerated, not computed from a formula)."""
    res = []
    for exps in itertools.product(range(degree + 1), repeat=dim):
        if 1 <= sum(exps) <= degree:
            res.append(tuple(exps))
    res.sort(key=lambda e: (sum(e), [-x for x in e]))
    return res


def monomial_exact(exps: Sequence[int], state: Sequence[float]) -> Fr:
    v = Fr(1)
    for e, s in zip(exps, state):
        if e:
            v *= _fr(s) ** e
    return v


#: generic probe states: pairwise different magnitudes, no zeros, no ones,
#: mixed signs - two different monomials of degree <= 3 never agree on all
PROBES = {
    2: [[1.25, -0.75], [0.625, 1.875], [-2.5, 0.3125], [1.75, 2.25],
        [-0.4375, -1.375]],
    3: [[1.25, -0.75, 2.125], [0.625, 1.875, -1.125], [-2.5, 0.3125, 0.875],
        [1.75, 2.25, 1.5], [-0.4375, -1.375, -2.75]],
}


def identify_monomials(unit_eval: Callable[[int, list[float]], float],
                       dim: int, degree: int, n_params: int,
                       extra_probes: Sequence[Sequence[float]] = (),
                       rel: float = 1e-9) -> tuple[list, list[str]]:
    """Identify the monomial that belongs to each parameter.

    ``unit_eval(k, state)`` is the controller output for the unit parameter
    vector ``e_k``. Returns ``(mapping, problems)``: ``mapping[k]`` is the
    exponent vector of parameter ``k`` (or ``None``), ``problems`` lists why
    the map is not a bijection onto all monomials.
    """
    monos = monomials(dim, degree)
    probes = [list(p) for p in PROBES[dim]]
    for p in extra_probes:
        if all(x != 0.0 and math.isfinite(x) and 1e-3 <= abs(x) <= 1e3
               for x in p):
            probes.append([float(x) for x in p])
    problems: list[str] = []
    mapping: list[Any] = []
    for k in range(n_params):
        outs = [unit_eval(k, p) for p in probes]
        match = []
        for m in monos:
            good = True
            for p, o in zip(probes, outs):
                want = float(monomial_exact(m, p))
                if not (abs(o - want) <= rel * abs(want)):
                    good = False
                    break
            if good:
                match.append(m)
        if len(match) == 1:
            mapping.append(match[0])
        else:
            mapping.append(None)
            problems.append(
                f"parameter {k} alone (unit vector) gives {outs[:3]} on "
                f"states {probes[:3]}: equals "
                f"{'no' if not match else 'several'} monomial(s) of degree "
                f"1..{degree}")
    used = [m for m in mapping if m is not None]
    for m in monos:
        c = used.count(m)
        if c == 0:
            problems.append(f"monomial with exponents {m} has no parameter")
        elif c > 1:
            problems.append(f"monomial with exponents {m} has {c} parameters")
    if n_params != len(monos):
        problems.append(f"{n_params} parameters for {len(monos)} monomials")
    return mapping, problems


def poly_value(mapping: Sequence[Sequence[int]], params: Sequence[float],
               state: Sequence[float]) -> tuple[float, float]:
    """Exact value and term scale of sum_k params[k] * monomial_k(state)."""
    total = Fr(0)
    scale = Fr(0)
    for m, p in zip(mapping, params):
        term = _fr(p) * monomial_exact(m, state)
        total += term
        scale += abs(term)
    return float(total), float(scale)


# ----------------------------------------------------------------------------
# partially linear controllers: blocks (anchor[dim], weights[dim]) per law
# ----------------------------------------------------------------------------

def plin_reference(dim: int, k: int, params: Sequence[float],
                   state: Sequence[float]) -> dict:
    """Nearest-anchor reference (exact squared Euclidean distances)."""
    s = [_fr(x) for x in state]
    dists = []
    for i in range(k):
        base = i * 2 * dim
        a = [_fr(x) for x in params[base:base + dim]]
        dists.append(sum((si - ai) ** 2 for si, ai in zip(s, a)))
    order = sorted(range(k), key=lambda i: (dists[i], i))
    best, second = order[0], order[1]
    gap = dists[second] - dists[best]
    # relative guard band plus an absolute floor: squared differences below
    # ~1e-290 are denormal or underflow to zero in float arithmetic
    tie = gap <= Fr(1, 10 ** 9) * dists[second] + Fr(1, 10 ** 290)
    vals = []
    for i in range(k):
        base = i * 2 * dim + dim
        w = [_fr(x) for x in params[base:base + dim]]
        terms = [si * wi for si, wi in zip(s, w)]
        vals.append((float(sum(terms)), float(sum(abs(t) for t in terms))))
    return {"nearest": best, "second": second, "tie": bool(tie),
            "dists": [float(d) for d in dists], "values": vals}


# ----------------------------------------------------------------------------
# networks
# ----------------------------------------------------------------------------

def ann_param_count(n_in: int, n_out: int, layers: Sequence[int]) -> int:
    total = 0
    width = n_in
    for layer in layers:
        total += layer * (1 + width)
        width = layer
    return total + n_out * (2 + width)


def _weighted_sum(bias: float, weights: Sequence[float],
                  inputs: Sequence[float], in_err: Sequence[float]) \
        -> tuple[float, float]:
    """bias + sum w_i*x_i with math.fsum and a running error bound that is
    valid for any summation order and fused multiply-adds."""
    terms = [w * x for w, x in zip(weights, inputs)]
    val = math.fsum([bias, *terms])
    mag = abs(bias) + math.fsum(abs(t) for t in terms)
    err = (len(terms) + 3) * EPS * mag
    err += math.fsum(abs(w) * e for w, e in zip(weights, in_err))
    return val, err


def ann_reference(n_in: int, n_out: int, layers: Sequence[int],
                  params: Sequence[float], state: Sequence[float]) \
        -> tuple[list[float], list[float]]:
    """Layer-by-layer arctan network.

    Layout: for every hidden layer, neuron by neuron: bias, then one weight
    per input of the layer; for every output: multiplier, bias, weights;
    ``out = multiplier * arctan(bias + sum w*x)``.
    Returns the outputs and first-order rounding bounds.
    """
    idx = 0
    cur = [float(x) for x in state[:n_in]]
    cur_err = [0.0] * len(cur)
    for layer in layers:
        nxt, nxt_err = [], []
        for _ in range(layer):
            bias = params[idx]
            w = params[idx + 1: idx + 1 + len(cur)]
            idx += 1 + len(cur)
            arg, err = _weighted_sum(bias, w, cur, cur_err)
            h = math.atan(arg)
            lo = max(0.0, abs(arg) - err)
            nxt.append(h)
            nxt_err.append(err / (1.0 + lo * lo) + 4 * EPS * abs(h))
        cur, cur_err = nxt, nxt_err
    outs, errs = [], []
    for _ in range(n_out):
        mult = params[idx]
        bias = params[idx + 1]
        w = params[idx + 2: idx + 2 + len(cur)]
        idx += 2 + len(cur)
        arg, err = _weighted_sum(bias, w, cur, cur_err)
        h = math.atan(arg)
        lo = max(0.0, abs(arg) - err)
        outs.append(mult * h)
        errs.append(abs(mult) * (err / (1.0 + lo * lo) + 4 * EPS * abs(h))
                    + 2 * EPS * abs(mult * h))
    if idx != len(params):
        raise ValueError(f"layout uses {idx} of {len(params)} parameters")
    return outs, errs


def peaks_reference(dim: int, n_peaks: int, params: Sequence[float],
                    state: Sequence[float]) -> tuple[float, float, float]:
    """sum_j mult_j * exp(-(bias_j + w_j . state)^2); layout per peak:
    multiplier, bias, weights. Returns (value, scale, rounding bound)."""
    terms = []
    err = 0.0
    for j in range(n_peaks):
        base = j * (2 + dim)
        mult, bias = params[base], params[base + 1]
        w = params[base + 2: base + 2 + dim]
        arg, aerr = _weighted_sum(bias, w, state, [0.0] * dim)
        try:
            act = math.exp(-(arg * arg))
        except OverflowError:  # pragma: no cover - exp(-x) cannot overflow
            act = 0.0
        terms.append(mult * act)
        # |d/da exp(-a^2)| <= sqrt(2/e) < 0.86
        err += abs(mult) * (0.86 * aerr + 8 * EPS * act)
    val = math.fsum(terms)
    scale = math.fsum(abs(t) for t in terms)
    return val, scale, err + (n_peaks + 2) * EPS * scale


# ----------------------------------------------------------------------------
# predefined laws (formulas of the docstrings / the cited works)
# ----------------------------------------------------------------------------

def cornejo_maceda(state: Sequence[float], params: Sequence[float]) \
        -> tuple[float, float]:
    """tanh(tanh(tanh(tanh(s0-s1)/p0)/p1)/p2); a zero divisor stands for an
    argument of 1. Returns (value, rounding bound)."""
    z = math.tanh(state[0] - state[1])
    err = 4 * EPS * abs(z)
    for b in params[:3]:
        if b == 0:
            z, err = math.tanh(1.0), 4 * EPS
        else:
            arg = z / b
            aerr = err / abs(b) + 2 * EPS * abs(arg)
            z = math.tanh(arg)
            err = min(aerr, 2.0) + 4 * EPS * abs(z)  # |tanh'| <= 1
    return z, err


def table_3_1_ga(state: Sequence[float], params: Sequence[float]) \
        -> tuple[float, float]:
    t = [_fr(state[0]) * _fr(params[0]), _fr(state[1]) * _fr(params[1])]
    return float(sum(t)), float(sum(abs(x) for x in t))


def table_3_1_lgpc(state: Sequence[float], params: Sequence[float]) -> dict:
    """p2 * sin(p3 / (s0*p0 + p1)); a zero denominator stands for an
    argument of 1. ``unsure`` when rounding could move the denominator
    across zero or the sine argument by more than 1e-3."""
    a_ex = _fr(state[0]) * _fr(params[0]) + _fr(params[1])
    a = float(a_ex)
    mag = abs(state[0] * params[0]) + abs(params[1])
    a_err = 4 * EPS * mag
    if a_ex == 0:
        # exact zero: a fused multiply-add may still see the rounding error
        # of the product -> only certain when the product itself is exact
        exact = (_fr(state[0] * params[0]) == _fr(state[0]) * _fr(params[0]))
        return {"value": params[2] * math.sin(1.0),
                "tol": 8 * EPS * abs(params[2]), "unsure": not exact}
    if abs(a) <= a_err or not math.isfinite(params[3] / a) \
            or abs(params[3] / a) > 1e300:
        # the quotient may overflow to +-inf, whose sine is NaN in IEEE
        # arithmetic: then NaN *is* the value of the documented formula
        lo = max(abs(a) - a_err, 5e-324)
        return {"value": 0.0, "tol": 0.0, "unsure": True,
                "may_overflow": params[3] != 0.0 and (
                    abs(params[3]) / lo > 1e300)}
    arg = params[3] / a
    arg_err = abs(arg) * (a_err / abs(a) + 4 * EPS)
    if arg_err > 1e-3 or abs(arg) > 1e6:
        return {"value": 0.0, "tol": 0.0, "unsure": True}
    val = params[2] * math.sin(arg)
    return {"value": val, "unsure": False,
            "tol": abs(params[2]) * (arg_err + 8 * EPS)}


# ----------------------------------------------------------------------------
# system equations (published forms), exact rational evaluation
# ----------------------------------------------------------------------------

def _vs(terms: Sequence[Fr]) -> tuple[float, float]:
    return float(sum(terms)), float(sum(abs(t) for t in terms))


def stuart_landau(state: Sequence[float], control: Sequence[float]) \
        -> list[tuple[float, float]]:
    """da1/dt = sigma a1 - a2, da2/dt = sigma a2 + a1 + b,
    sigma = 0.1 - a1^2 - a2^2."""
    a1, a2 = _fr(state[0]), _fr(state[1])
    b = _fr(control[0])
    c = _fr(0.1)
    return [_vs([c * a1, -a1 ** 3, -a2 * a2 * a1, -a2]),
            _vs([c * a2, -a1 * a1 * a2, -a2 ** 3, a1, b])]


def lorenz(state: Sequence[float], control: Sequence[float]) \
        -> list[tuple[float, float]]:
    """dx = sigma (y-x), dy = x (rho - z) - y + b, dz = x y - beta z with
    sigma = 10, rho = 28, beta = 8/3."""
    x, y, z = (_fr(v) for v in state[:3])
    b = _fr(control[0])
    beta = Fr(8, 3)
    return [_vs([10 * y, -10 * x]),
            _vs([28 * x, -x * z, -y, b]),
            _vs([x * y, -beta * z])]


def three_oscillators(state: Sequence[float], control: Sequence[float]) \
        -> list[tuple[float, float]]:
    """Equation (3.1) of Li et al. 2018: three oscillators with frequencies
    1, pi, pi^2; sigma1 = -r1^2 + r2^2 - r3^2, sigma2 = 0.1 - r2^2,
    sigma3 = -0.1; the control acts on a4 and a6."""
    a1, a2, a3, a4, a5, a6 = (_fr(v) for v in state[:6])
    b = _fr(control[0])
    pi = _fr(math.pi)
    pi2 = pi * pi
    c = _fr(0.1)
    r1 = [a1 * a1, a2 * a2]
    r2 = [a3 * a3, a4 * a4]
    r3 = [a5 * a5, a6 * a6]
    s1 = [-r1[0], -r1[1], r2[0], r2[1], -r3[0], -r3[1]]
    s2 = [c, -r2[0], -r2[1]]
    return [_vs([t * a1 for t in s1] + [-a2]),
            _vs([t * a2 for t in s1] + [a1]),
            _vs([t * a3 for t in s2] + [-pi * a4]),
            _vs([t * a4 for t in s2] + [pi * a3, b]),
            _vs([-c * a5, -pi2 * a6]),
            _vs([-c * a6, pi2 * a5, b])]


SYSTEMS = {"stuart_landau": (2, stuart_landau), "lorenz": (3, lorenz),
           "3oscillators": (6, three_oscillators)}


# ----------------------------------------------------------------------------
# results of the simulation: figure of merit, differentials
# ----------------------------------------------------------------------------

def j_reference(rows: Sequence[Sequence[float]], state_dim: int,
                use_state_dims: int, gamma: float) -> float:
    """Documented figure of merit of a simulation result.

    ``rows[i] = state + control + [time]``. With ``w_i = t[i+1] - t[i]``:
    ``J = ( sum_{i=0}^{n-2} w_i * gamma * sum_c control_i[c]^2
          + sum_{i=1}^{n-2} w_i * sum_{d<use} state_i[d]^2 ) / t[n-1]``
    (the starting state and the whole last row are left out); a value outside
    (-1e100, 1e100) contributes 1e100; a single (failure) row gives 1e200.
    """
    n = len(rows)
    if n <= 1:
        return 1e200
    if use_state_dims <= 0:
        use_state_dims = state_dim
    width = len(rows[0])
    terms: list[float] = []
    for i in range(n - 1):
        w = rows[i + 1][-1] - rows[i][-1]
        for c in range(state_dim, width - 1):
            v = rows[i][c]
            terms.append((v * v) * (w * gamma)
                         if -1e100 < v < 1e100 else 1e100)
        if i > 0:
            for d in range(use_state_dims):
                v = rows[i][d]
                terms.append((v * v) * w if -1e100 < v < 1e100 else 1e100)
    return math.fsum(terms) / rows[-1][-1]


def diff_reference(rows: Sequence[Sequence[float]], state_dim: int) \
        -> tuple[list[list[float]], list[list[float]]]:
    """(state+control of all rows but the last, finite-difference quotient
    (s[i+1]-s[i]) / (t[i+1]-t[i]))."""
    sc = [list(r[:-1]) for r in rows[:-1]]
    df = []
    for i in range(len(rows) - 1):
        dt = rows[i + 1][-1] - rows[i][-1]
        df.append([(rows[i + 1][d] - rows[i][d]) / dt
                   for d in range(state_dim)])
    return sc, df


# ----------------------------------------------------------------------------
# linear test systems ds/dt = M s + g with closed-form solutions
# ----------------------------------------------------------------------------

def expm(mat: np.ndarray) -> np.ndarray:
    """Matrix exponential: scaling and squaring around a Taylor series (own
    implementation, float64)."""
    a = np.array(mat, dtype=float)
    norm = float(np.abs(a).sum(axis=1).max()) if a.size else 0.0
    k = 0
    while norm > 0.25:
        norm /= 2.0
        k += 1
    a = a / (2.0 ** k)
    res = np.eye(len(a))
    term = np.eye(len(a))
    for i in range(1, 30):
        term = term @ a / i
        res = res + term
    for _ in range(k):
        res = res @ res
    return res


def linear_blocks_matrix(blocks: Sequence[Sequence[float]]) -> np.ndarray:
    """Block-diagonal matrix: ``[lam]`` is a 1x1 block, ``[a, w]`` the 2x2
    rotation-decay block [[a, -w], [w, a]]."""
    n = sum(len(b) for b in blocks)
    m = np.zeros((n, n))
    i = 0
    for b in blocks:
        if len(b) == 1:
            m[i, i] = b[0]
            i += 1
        else:
            a, w = b
            m[i, i] = a
            m[i, i + 1] = -w
            m[i + 1, i] = w
            m[i + 1, i + 1] = a
            i += 2
    return m


def linear_solution(m: np.ndarray, g: Sequence[float], s0: Sequence[float],
                    t: float) -> np.ndarray:
    """Solution of ds/dt = M s + g at time t through the exponential of the
    augmented matrix [[M, g], [0, 0]]."""
    n = len(s0)
    aug = np.zeros((n + 1, n + 1))
    aug[:n, :n] = m
    aug[:n, n] = g
    e = expm(aug * t)
    return e[:n, :n] @ np.array(s0, dtype=float) + e[:n, n]


def blocks_closed_form(blocks: Sequence[Sequence[float]], b: Sequence[float],
                       c: float, s0: Sequence[float], t: float) -> Any:
    """Closed form of ds/dt = A s + b*c for block-diagonal A and constant
    control c (elementary functions only; cross-check of linear_solution).
    Returns None when a block is nearly singular (0 < |lambda| < 1e-3): the
    fixed-point form then cancels catastrophically."""
    for blk in blocks:
        size = abs(blk[0]) if len(blk) == 1 else math.hypot(blk[0], blk[1])
        if 0.0 < size < 1e-3:
            return None
    out: list[float] = []
    i = 0
    for blk in blocks:
        if len(blk) == 1:
            lam = blk[0]
            gi = b[i] * c
            if lam == 0.0:
                out.append(s0[i] + gi * t)
            else:
                p = -gi / lam  # fixed point
                out.append(p + (s0[i] - p) * math.exp(lam * t))
            i += 1
        else:
            a, w = blk
            g0, g1 = b[i] * c, b[i + 1] * c
            det = a * a + w * w
            if det == 0.0:
                out.extend([s0[i] + g0 * t, s0[i + 1] + g1 * t])
            else:
                # fixed point p = -A^{-1} g, A^{-1} = [[a, w], [-w, a]]/det
                p0 = -(a * g0 + w * g1) / det
                p1 = -(-w * g0 + a * g1) / det
                d0, d1 = s0[i] - p0, s0[i + 1] - p1
                e = math.exp(a * t)
                co, si = math.cos(w * t), math.sin(w * t)
                out.extend([p0 + e * (co * d0 - si * d1),
                            p1 + e * (si * d0 + co * d1)])
            i += 2
    return out
