"""Dispatcher: ./check <ID> [quick|thorough] | --replay <file> | --list.

The parent process shards the work, merges the shard reports, writes the
evidence file and decides the exit code. Workers are fresh interpreters
(``python -m vf.run --worker ...``) so that every shard imports the current
working tree of the repository with its own numba cache directory.
"""
from __future__ import annotations

import hashlib
import importlib
import json
import os
import shutil
import subprocess
import sys
import tempfile
import time
import traceback
from typing import Any

HERE = os.path.dirname(os.path.abspath(__file__))
VERIF_DIR = os.path.dirname(HERE)
ALL_IDS = [f"C{i:02d}" for i in range(1, 21)]
NCPU = 16


def repo_dir() -> str:
    return os.path.abspath(os.environ.get("VERIF_REPO", "/repo"))


def source_hash(repo: str) -> str:
    h = hashlib.sha256()
    base = os.path.join(repo, "moptipyapps")
    for root, dirs, files in os.walk(base):
        dirs.sort()
        if "__pycache__" in dirs:
            dirs.remove("__pycache__")
        for fn in sorted(files):
            if fn.endswith(".py"):
                p = os.path.join(root, fn)
                h.update(os.path.relpath(p, base).encode())
                with open(p, "rb") as f:
                    h.update(f.read())
    return h.hexdigest()[:20]


_LOCKS: list = []  # file objects whose flock lives as long as the process


def _flock(cdir: str, exclusive: bool) -> Any:
    import fcntl
    fh = open(cdir.rstrip(os.sep) + ".lock", "a+")  # noqa: SIM115
    fcntl.flock(fh, fcntl.LOCK_EX if exclusive else fcntl.LOCK_SH)
    return fh


def base_cache_dir(pid: str, boundscheck: bool) -> str:
    """numba cache of (this source tree, this property): written by the
    warm-up worker of that property only."""
    cache_root = os.environ.get(
        "VERIF_CACHE", os.path.join(VERIF_DIR, ".cache", "numba"))
    tag = source_hash(repo_dir()) + ("-bc" if boundscheck else "")
    return os.path.join(cache_root, tag, pid or "_")


def setup_environment(boundscheck: bool = False, pid: str = "",
                      role: str = "parent", scratch: str = "") -> None:
    """Must run before numba / moptipyapps are imported.

    numba's on-disk cache is not safe against concurrent writers: two
    processes that save different signatures of one function at the same
    moment can leave an index entry that points to the machine code of the
    other signature (seen once as "can't unbox array from PyObject into
    native value" in a run that had nothing to do with the changed code).
    Therefore only the warm-up worker of a property (``role="warm"``, under
    an exclusive lock) writes the base cache; every other process works on a
    private copy of it (``role="private"``, made under a shared lock in
    ``scratch``) and processes started by such a process inherit that copy
    through ``VERIF_PRIVATE_CACHE``.
    """
    repo = repo_dir()
    if not os.path.isdir(os.path.join(repo, "moptipyapps")):
        print(f"HARNESS-ERROR: no moptipyapps package under {repo}")
        sys.exit(2)
    sys.path.insert(0, repo)
    os.environ["VERIF_REPO"] = repo
    cache_root = os.environ.get(
        "VERIF_CACHE", os.path.join(VERIF_DIR, ".cache", "numba"))
    cdir = base_cache_dir(pid, boundscheck)
    inherited = os.environ.get("VERIF_PRIVATE_CACHE")
    if role != "warm" and inherited and os.path.isdir(inherited):
        cdir = inherited
    elif role == "private":
        os.makedirs(cdir, exist_ok=True)
        private = os.path.join(scratch or tempfile.mkdtemp(prefix="vf_nbc_"),
                               "numba_cache")
        lock = _flock(cdir, exclusive=False)
        try:
            shutil.copytree(cdir, private, dirs_exist_ok=True)
        finally:
            lock.close()
        cdir = private
        os.environ["VERIF_PRIVATE_CACHE"] = private
    else:
        os.makedirs(cdir, exist_ok=True)
        if role == "warm":
            os.environ.pop("VERIF_PRIVATE_CACHE", None)
            _LOCKS.append(_flock(cdir, exclusive=True))
    os.environ["NUMBA_CACHE_DIR"] = cdir
    if boundscheck:
        os.environ["NUMBA_BOUNDSCHECK"] = "1"
    else:
        os.environ.pop("NUMBA_BOUNDSCHECK", None)
    os.environ.setdefault("NUMBA_NUM_THREADS", "1")
    os.environ.setdefault("OMP_NUM_THREADS", "1")
    os.environ.setdefault("OPENBLAS_NUM_THREADS", "1")
    os.environ.setdefault("MKL_NUM_THREADS", "1")
    if role == "parent":
        try:
            tree = os.path.dirname(base_cache_dir(pid, boundscheck))
            os.makedirs(tree, exist_ok=True)
            os.utime(tree, None)
            _prune_cache(cache_root, keep=tree)
        except OSError:
            pass


def _prune_cache(root: str, keep: str) -> None:
    now = time.time()
    entries = []
    for name in os.listdir(root):
        p = os.path.join(root, name)
        if os.path.isdir(p) and p != keep:
            entries.append((os.path.getmtime(p), p))
    entries.sort(reverse=True)
    for mtime, p in entries[6:]:
        if now - mtime > 3 * 3600:
            shutil.rmtree(p, ignore_errors=True)


def check_import() -> None:
    import moptipyapps  # noqa: PLC0415
    got = os.path.abspath(moptipyapps.__file__)
    if not got.startswith(repo_dir() + os.sep):
        raise RuntimeError(
            f"moptipyapps imported from {got}, expected under {repo_dir()}")


def load_prop(pid: str):
    return importlib.import_module(f"vf.props.{pid.lower()}")


# ----------------------------------------------------------------------------
# worker
# ----------------------------------------------------------------------------

def worker_main(argv: list[str]) -> int:
    pid, tier, seed, shard, nshards, part, out = (
        argv[0], argv[1], int(argv[2]), int(argv[3]), int(argv[4]), argv[5],
        argv[6])
    # every temporary file of this worker and of its children lives below
    # the parent's scratch directory, which the parent removes - also when a
    # watchdog kills a child before its own clean-up ran
    wtmp = os.path.join(out + ".d", "tmp")
    os.makedirs(wtmp, exist_ok=True)
    os.environ["TMPDIR"] = wtmp
    tempfile.tempdir = wtmp
    setup_environment(boundscheck=part.endswith("@bc"), pid=pid,
                      role="warm" if shard < 0 else "private",
                      scratch=out + ".d")
    import faulthandler
    faulthandler.enable()  # Python traceback into the worker log on SIGSEGV
    from vf.core import Ctx, Violation  # noqa: PLC0415
    check_import()
    mod = load_prop(pid)
    warm = shard < 0
    ctx = Ctx(pid, "quick" if warm else tier, seed, max(shard, 0), nshards,
              tempfile.mkdtemp(prefix="vf_warm_") if warm else
              os.path.join(os.environ.get("VERIF_OUT", os.path.join(VERIF_DIR, "out")), "violations", pid))
    ctx.part = part
    ctx.warm = warm
    ctx.quick_scale = float(os.environ.get(
        "VERIF_QUICK_SCALE", getattr(mod, "META", {}).get("quick_scale", 3)))
    ctx.thorough_scale = float(os.environ.get(
        "VERIF_THOROUGH_SCALE",
        getattr(mod, "META", {}).get("thorough_scale", 4)))
    t0 = time.monotonic()
    if warm:
        try:
            mod.run(ctx)
        finally:
            shutil.rmtree(ctx.replay_dir, ignore_errors=True)
        return 0
    # 1. known findings: replay the reproducer of every open finding
    if part.split("@")[0] in ("main", "replays"):
        run_known_and_replays(ctx, mod, do_replays=(
            shard == 0 and not part.endswith("@bc")))
    # 2. the generated search
    if part != "replays":
        mod.run(ctx)
    d = ctx.rec.dump()
    d["wall_s"] = time.monotonic() - t0
    d["shard"] = shard
    d["part"] = part
    with open(out, "w", encoding="utf-8") as f:
        json.dump(d, f)
    return 0


def run_known_and_replays(ctx, mod, do_replays: bool) -> None:
    from vf.core import CaseTimeout, Violation, load_known_findings, unjson
    subs = mod.SUBS
    for kf in load_known_findings():
        if kf["property"] != ctx.prop or kf.get("status") != "open":
            continue
        path = os.path.join(VERIF_DIR, kf["replay"])
        with open(path, encoding="utf-8") as f:
            body = json.load(f)
        ctx.replaying = True
        try:
            subs[body["sub"]](ctx, unjson(body["case"]))
        except Violation as v:
            ctx.active_findings.add(kf["id"])
            line = f"property={ctx.prop} {kf['id']}: {kf['what']}"
            if line not in ctx.rec.known:
                ctx.rec.known.append(line)
        else:
            ctx.rec.notes.append(
                f"open finding {kf['id']} no longer reproduces; "
                "its exclusion predicate is switched off")
        finally:
            ctx.replaying = False
    if not do_replays:
        return
    rdir = os.path.join(VERIF_DIR, "replays", ctx.prop)
    open_files = {os.path.abspath(os.path.join(VERIF_DIR, kf["replay"]))
                  for kf in load_known_findings()
                  if kf.get("status") == "open"}
    if os.path.isdir(rdir):
        for name in sorted(os.listdir(rdir)):
            path = os.path.abspath(os.path.join(rdir, name))
            if not name.endswith(".json") or path in open_files:
                continue
            with open(path, encoding="utf-8") as f:
                body = json.load(f)
            ctx.replaying = True
            try:
                subs[body["sub"]](ctx, unjson(body["case"]))
                ctx.rec.label("regression_replays")
            except Violation as v:
                ctx.rec.violations.append(
                    {"sub": body["sub"], "replay": path,
                     "message": str(v)[:600]})
            except CaseTimeout:  # a watchdog hit is never a verdict
                ctx.rec.inconc("replay_watchdog")
            finally:
                ctx.replaying = False


# ----------------------------------------------------------------------------
# replay
# ----------------------------------------------------------------------------

def replay_main(path: str) -> int:
    with open(path, encoding="utf-8") as f:
        body = json.load(f)
    pid = body["property"]
    bc = bool(body.get("boundscheck")) or pid == "C13"
    scratch = tempfile.mkdtemp(prefix="vf_replay_nbc_")
    import atexit
    atexit.register(shutil.rmtree, scratch, True)
    setup_environment(boundscheck=bc, pid=pid, role="private",
                      scratch=scratch)
    from vf.core import Ctx, Violation, unjson
    check_import()
    mod = load_prop(pid)
    ctx = Ctx(pid, "quick", int(body.get("seed", 1)), 0, 1,
              tempfile.mkdtemp(prefix="vf_replay_"))
    ctx.replaying = True
    ctx.part = "main@bc" if bc else "main"
    try:
        mod.SUBS[body["sub"]](ctx, unjson(body["case"]))
    except Violation as v:
        print(f"replay: property fails: {v}")
        print(f"VIOLATION property={pid} replay={os.path.abspath(path)}")
        return 1
    finally:
        shutil.rmtree(ctx.replay_dir, ignore_errors=True)
    print(f"replay: property {pid} holds on {path}")
    return 0


# ----------------------------------------------------------------------------
# parent
# ----------------------------------------------------------------------------

def parent_main(pid: str, tier: str) -> int:
    t0 = time.monotonic()
    seed = int(os.environ.get("VERIF_SEED", "1") or "1")
    os.environ.pop("VERIF_PRIVATE_CACHE", None)
    setup_environment(pid=pid)
    modmeta = _read_meta(pid)
    parts = modmeta.get("parts", ["main"])
    nshards = int(os.environ.get(
        "VERIF_SHARDS", modmeta["shards"][0 if tier == "quick" else 1]))
    max_wall = float(os.environ.get(
        "VERIF_MAX_WALL_S", 2400 if tier == "quick" else 4 * 3600))
    tmp = tempfile.mkdtemp(prefix=f"vf_{pid}_")
    viol_dir = os.path.join(os.environ.get("VERIF_OUT", os.path.join(VERIF_DIR, "out")), "violations", pid)
    shutil.rmtree(viol_dir, ignore_errors=True)
    dumps: list[dict] = []
    errors: list[str] = []
    try:
        jobs = []
        for part in parts:
            for shard in range(nshards):
                jobs.append((part, shard))
        running: list[tuple] = []
        pending = list(jobs)
        crashed: list[tuple] = []

        def start(part: str, shard: int):
            out = os.path.join(tmp, f"{part.replace('@', '_')}_{shard}.json")
            log = out + ".log"
            cmd = [sys.executable, "-m", "vf.run", "--worker", pid, tier,
                   str(seed), str(shard), str(nshards), part, out]
            fh = open(log, "w", encoding="utf-8")  # noqa: SIM115
            p = subprocess.Popen(cmd, cwd=VERIF_DIR, stdout=fh,
                                 stderr=subprocess.STDOUT)
            return (p, part, shard, out, log, fh)

        # phase 1 (only when the numba cache of this tree is cold): one
        # small warm-up worker per part compiles the kernels, so that the 16
        # shards of phase 2 load them from the cache instead of compiling the
        # same code 16 times. Its report is discarded.
        phase1 = [(part, -1) for part in parts if _cache_is_cold(part, pid)]
        phase2 = pending
        for phase in (phase1, phase2):
            queue = list(phase)
            running = []
            while queue or running:
                while queue and len(running) < NCPU:
                    running.append(start(*queue.pop(0)))
                time.sleep(0.05)
                if time.monotonic() - t0 > max_wall:
                    # overall watchdog: a worker that never returns (e.g. a
                    # changed tree that loops forever) must not hang the
                    # check. Inconclusive = harness exit code, no verdict.
                    for job in running:
                        job[0].kill()
                    stuck = ", ".join(f"{j[1]}/{j[2]}" for j in running)
                    print(f"HARNESS-ERROR: inconclusive - workers {stuck} "
                          f"still running after {max_wall:.0f}s wall; killed")
                    return 2
                still = []
                for job in running:
                    p, part, shard, out, log, fh = job
                    rc = p.poll()
                    if rc is None:
                        still.append(job)
                        continue
                    fh.close()
                    if shard < 0:
                        continue  # warm-up: result not used
                    if rc == 0 and os.path.exists(out):
                        with open(out, encoding="utf-8") as f:
                            dumps.append(json.load(f))
                    elif rc < 0 and not part.endswith("@bc"):
                        # the worker was killed by a signal (SIGSEGV/SIGABRT):
                        # a compiled kernel corrupted memory. Re-run the same
                        # shard with numba's bounds checking switched on, which
                        # turns the bad access into an IndexError = a violation
                        # with a proper replay file.
                        with open(log, encoding="utf-8") as f:
                            tail = f.read()[-3000:]
                        print(f"NOTE: worker {part}/{shard} died with signal "
                              f"{-rc}; its log ends with:\n{tail}")
                        crashed.append((part, shard, rc))
                        queue.append((part + "@bc", shard))
                    else:
                        with open(log, encoding="utf-8") as f:
                            tail = f.read()[-6000:]
                        errors.append(
                            f"worker {part}/{shard} exit {rc}:\n{tail}")
                running = still
        if not errors and not crashed:
            _keep_compiled(tmp, parts, pid)
    finally:
        shutil.rmtree(tmp, ignore_errors=True)

    from vf.core import merge_dumps
    if errors:
        for e in errors:
            print("HARNESS-ERROR:", e)
        return 2
    merged = merge_dumps(dumps)
    if crashed and not merged["violations"]:
        for part, shard, rc in crashed:
            print(f"HARNESS-ERROR: worker {part}/{shard} died with signal "
                  f"{-rc} and the bounds-checked re-run found no violation")
        return 2
    for part, shard, rc in crashed:
        merged["notes"].append(
            f"worker {part}/{shard} died with signal {-rc} (memory "
            "corruption in a compiled kernel); re-run with bounds checks")
    wall = time.monotonic() - t0
    write_evidence(pid, tier, seed, merged, modmeta, wall, nshards)
    for line in merged["known"]:
        print(f"KNOWN-FINDING: {line}")
    for note in merged["notes"]:
        print(f"NOTE: {note}")
    print(f"{pid} {tier}: evaluations={merged['evaluations']} "
          f"distinct_nontrivial={len(merged['nontrivial'])} "
          f"excluded={merged['excluded']} inconclusive="
          f"{merged['inconclusive']} wall={wall:.1f}s shards={nshards}")
    if merged["violations"]:
        seen = set()
        for v in merged["violations"]:
            if v["replay"] in seen:
                continue
            seen.add(v["replay"])
            print(f"  {v['sub']}: {v['message']}")
            print(f"VIOLATION property={pid} replay={v['replay']}")
        return 1
    return 0


def _keep_compiled(tmp: str, parts: list, pid: str) -> None:
    """After a clean run the private cache of one shard per part (the one
    with the most entries: a consistent single-writer superset of the base it
    was copied from) becomes the base cache, under the exclusive lock."""
    for part in parts:
        best, most = None, 0
        prefix = part.replace("@", "_") + "_"
        for name in os.listdir(tmp):
            d = os.path.join(tmp, name, "numba_cache")
            if name.startswith(prefix) and name.endswith(".json.d") \
                    and os.path.isdir(d):
                cnt = sum(len(fs) for _r, _d, fs in os.walk(d))
                if cnt > most:
                    best, most = d, cnt
        if best is None:
            continue
        base = base_cache_dir(pid, part.endswith("@bc"))
        try:
            os.makedirs(base, exist_ok=True)
            lock = _flock(base, exclusive=True)
            try:
                shutil.copytree(best, base, dirs_exist_ok=True)
            finally:
                lock.close()
        except OSError:
            pass


def _cache_is_cold(part: str, pid: str) -> bool:
    cdir = base_cache_dir(pid, part.endswith("@bc"))
    if not os.path.isdir(cdir):
        return True
    for _root, _dirs, files in os.walk(cdir):
        if any(f.endswith(".nbi") for f in files):
            return False
    return True


def _read_meta(pid: str) -> dict:
    """META literal of a property module, read without importing it."""
    import ast
    path = os.path.join(HERE, "props", f"{pid.lower()}.py")
    if not os.path.exists(path):
        print(f"HARNESS-ERROR: no check for {pid}")
        sys.exit(2)
    with open(path, encoding="utf-8") as f:
        tree = ast.parse(f.read())
    meta = None
    for node in tree.body:
        if isinstance(node, ast.Assign) and len(node.targets) == 1 \
                and getattr(node.targets[0], "id", None) == "META":
            meta = ast.literal_eval(node.value)
    if not isinstance(meta, dict) or "rule" not in meta:
        print(f"HARNESS-ERROR: {path} has no literal META dict with 'rule'")
        sys.exit(2)
    meta.setdefault("shards", [4, 16])
    meta.setdefault("parts", ["main"])
    return meta


def write_evidence(pid: str, tier: str, seed: int, m: dict, meta: dict,
                   wall: float, nshards: int) -> None:
    samples = (m["nt_samples"][:8] + m["samples"][:2]) or ["<none>"]
    cov = {
        "evaluations": m["evaluations"],
        "distinct_nontrivial": len(m["nontrivial"]),
        "rule": meta["rule"],
        "samples": samples,
        "labels": dict(sorted(m["labels"].items())),
        "excluded_known_findings": m["excluded"],
        "inconclusive": m["inconclusive"],
        "shards": nshards,
        "exhaustive": False,
    }
    if m["subreports"]:
        cov["subreports"] = m["subreports"]
    ev = {
        "property_id": pid, "tier": tier, "seed": seed,
        "level": "exploration", "coverage": cov,
        "assumptions": meta.get("assumptions", []),
        "wall_s": round(wall, 2),
        "violations": len({v["replay"] for v in m["violations"]}),
        "known_findings_reproduced": m["known"],
        "repo": repo_dir(),
    }
    # evidence/ only ever describes runs against /repo itself: runs against
    # a scratch copy (mutants, seeded changes) write next to their other
    # output
    edir = os.path.join(VERIF_DIR, "evidence")
    if os.path.realpath(repo_dir()) != "/repo":
        edir = os.path.join(os.environ.get(
            "VERIF_OUT", os.path.join(VERIF_DIR, "out")), "evidence_scratch")
    os.makedirs(edir, exist_ok=True)
    path = os.path.join(edir, f"{pid}.json")
    tmp = path + ".tmp"
    with open(tmp, "w", encoding="utf-8") as f:
        json.dump(ev, f, indent=1, sort_keys=True)
        f.write("\n")
    os.replace(tmp, path)


def main() -> int:
    argv = sys.argv[1:]
    if not argv:
        print(__doc__)
        return 2
    try:
        if argv[0] == "--worker":
            return worker_main(argv[1:])
        if argv[0] == "--replay":
            return replay_main(argv[1])
        if argv[0] == "--list":
            for pid in ALL_IDS:
                if os.path.exists(os.path.join(
                        HERE, "props", f"{pid.lower()}.py")):
                    print(pid)
            return 0
        pid = argv[0].upper()
        tier = argv[1] if len(argv) > 1 else os.environ.get(
            "VERIF_TIER", "quick")
        if tier not in ("quick", "thorough"):
            print(f"unknown tier {tier!r}")
            return 2
        return parent_main(pid, tier)
    except SystemExit:
        raise
    except BaseException:  # noqa: BLE001
        traceback.print_exc()
        print("HARNESS-ERROR: see traceback above")
        return 2


if __name__ == "__main__":
    sys.exit(main())
