"""Independent models for the bin-packing instance generator (C17).

No import from moptipyapps.

* :func:`replay` re-plays the documented cutting sequence of the instance
  decoder from the real vector ``x`` while keeping the *positions* of all
  pieces, so the result is a guillotine layout of ``k`` bins together with
  the item multiset a correct decoder has to produce.
* :func:`guillotine_packable` decides, by exhaustive memoised search, whether
  a small multiset of rectangles can be cut out of ``k`` bins with guillotine
  cuts (rotation by 90 degrees allowed). Everything a correct decoder emits
  has this property (split pieces, shrunk pieces stay inside their region).
"""
from __future__ import annotations

import math
from typing import Sequence


class ReplayError(Exception):
    """The documented procedure cannot be carried out for this input."""


def _pick(n: int, selector: float) -> int:
    """Index chosen by ``selector`` among ``n`` pieces: the integer part of
    ``n * selector`` (float product, truncated towards zero), wrapped into
    ``0..n-1``."""
    return math.trunc(n * selector) % n


def _position(modulus: int, cutter: float) -> int:
    """Cut position in ``1..modulus``."""
    return (math.trunc(modulus * cutter) % modulus) + 1


def replay(W: int, H: int, k: int, n_items: int,
           x: Sequence[float]) -> dict:
    """Re-play the cutting sequence.

    Pieces are ``[bin, x0, y0, w, h]``. Phase 1 makes ``n_items - k`` splits
    (one pair of reals each): the piece keeps the part next to its origin,
    the remainder becomes a new piece at the end of the list. Phase 2 uses
    the remaining pairs to shave material off pieces while the total area
    stays at least ``(k-1)*W*H + 1``.

    :return: {"pieces": [...], "slack_pairs": pairs consumed in phase 2,
        "slack_cuts": pairs that removed material, "area": total area}
    """
    if k < 1 or n_items < k:
        raise ReplayError(f"cannot make {n_items} items from {k} bins")
    pieces: list[list[int]] = [[b + 1, 0, 0, W, H] for b in range(k)]
    pos = 0
    for _step in range(n_items - k):
        if pos + 1 >= len(x):
            raise ReplayError("vector too short for phase 1")
        selector, cutter = float(x[pos]), float(x[pos + 1])
        pos += 2
        n = len(pieces)
        first = idx = _pick(n, selector)
        move = -1 if selector < 0.0 else 1
        axis = 1 if cutter >= 0.0 else 0  # 1: along the height, 0: width
        rounds = 0
        while True:
            piece = pieces[idx]
            size = piece[3 + axis]
            if size >= 2:
                c = _position(size - 1, cutter)
                rest = list(piece)
                piece[3 + axis] = c
                rest[1 + axis] = piece[1 + axis] + c
                rest[3 + axis] = size - c
                pieces.append(rest)
                break
            idx = (idx + move) % n
            if idx == first:
                axis = 1 - axis
                rounds += 1
                if rounds > 2:
                    raise ReplayError("no piece can be split any more")
    bin_area = W * H
    area = k * bin_area
    floor_area = area - bin_area + 1
    n = len(pieces)
    used = 0
    cuts = 0
    while pos + 1 < len(x) and area > floor_area:
        selector, cutter = float(x[pos]), float(x[pos + 1])
        pos += 2
        used += 1
        first = idx = _pick(n, selector)
        move = -1 if selector < 0.0 else 1
        axis = 1 if cutter >= 0.0 else 0
        rounds = 0
        while rounds < 2:
            piece = pieces[idx]
            size = piece[3 + axis]
            other = piece[4 - axis]
            modulus = min((area - floor_area) // other, size) - 1
            if modulus > 0:
                c = _position(modulus, cutter)
                piece[3 + axis] = size - c
                area -= c * other
                cuts += 1
                break
            idx = (idx + move) % n
            if idx == first:
                axis = 1 - axis
                rounds += 1
    total = sum(p[3] * p[4] for p in pieces)
    if total != area:
        raise AssertionError("replay lost track of the area")
    return {"pieces": pieces, "slack_pairs": used, "slack_cuts": cuts,
            "area": area}


def layout_rows(pieces: list[list[int]], items: list[list[int]]) \
        -> list[list[int]] | None:
    """Rows ``[id, bin, x0, y0, x1, y1]`` for the pieces, using the item
    types ``[[w, h, mult], ...]`` of an instance (exact orientation). Returns
    ``None`` when the multisets differ."""
    left: dict[tuple[int, int], list[list[int]]] = {}
    for t, (w, h, m) in enumerate(items):
        left.setdefault((int(w), int(h)), []).append([t + 1, int(m)])
    if sum(int(m) for _w, _h, m in items) != len(pieces):
        return None
    rows: list[list[int]] = []
    for b, x0, y0, w, h in pieces:
        lst = left.get((w, h))
        if not lst:
            return None
        tid = lst[0][0]
        lst[0][1] -= 1
        if lst[0][1] == 0:
            lst.pop(0)
        rows.append([tid, b, x0, y0, x0 + w, y0 + h])
    if any(lst for lst in left.values()):
        return None
    return rows


# ----------------------------------------------------------------------------
# exhaustive guillotine packability for small cases
# ----------------------------------------------------------------------------

INF = 1 << 60


def guillotine_packable(W: int, H: int, k: int,
                        rects: Sequence[tuple[int, int]]) -> bool:
    """Can ``rects`` (each may be rotated) be cut out of ``k`` bins WxH by
    guillotine cuts? Exhaustive: every assignment of rectangles to bins and
    every recursive split into two groups by a horizontal or vertical cut.
    """
    n = len(rects)
    if n > 10:
        raise ValueError("too many rectangles for the exhaustive search")
    full = (1 << n) - 1
    area = [0] * (full + 1)
    for mask in range(1, full + 1):
        low = mask & -mask
        i = low.bit_length() - 1
        area[mask] = area[mask ^ low] + rects[i][0] * rects[i][1]
    memo: dict[tuple[int, int], int] = {}

    def min_width(mask: int, h: int) -> int:
        """Smallest w such that the group fits into w x h (INF: none).
        By symmetry (everything may be rotated) this is also the smallest
        height for a given width."""
        key = (mask, h)
        got = memo.get(key)
        if got is not None:
            return got
        low = mask & -mask
        if mask == low:
            a, b = rects[low.bit_length() - 1]
            best = INF
            if b <= h:
                best = a
            if a <= h and b < best:
                best = b
            memo[key] = best
            return best
        best = INF
        rest_all = mask ^ low
        sub = rest_all
        # all splits {A, B} with the lowest element in A
        while True:
            a_mask = low | sub
            b_mask = mask ^ a_mask
            if b_mask:
                # vertical cut: side by side, both of height h
                wa = min_width(a_mask, h)
                if wa < best:
                    wb = min_width(b_mask, h)
                    if wa + wb < best:
                        best = wa + wb
                # horizontal cut at c: A below (height c), B above
                for c in range(1, h):
                    if area[a_mask] > c * best or \
                            area[b_mask] > (h - c) * best:
                        continue  # cannot beat the best width
                    wa = min_width(a_mask, c)
                    if wa >= best:
                        continue
                    wb = min_width(b_mask, h - c)
                    w = wa if wa > wb else wb
                    if w < best:
                        best = w
            if sub == 0:
                break
            sub = (sub - 1) & rest_all
        memo[key] = best
        return best

    bin_ok = [False] * (full + 1)
    for mask in range(1, full + 1):
        if area[mask] <= W * H:
            bin_ok[mask] = min_width(mask, H) <= W
    reach: dict[tuple[int, int], bool] = {}

    def cover(mask: int, bins: int) -> bool:
        if mask == 0:
            return True
        if bins == 0:
            return False
        key = (mask, bins)
        if key in reach:
            return reach[key]
        low = mask & -mask
        rest_all = mask ^ low
        sub = rest_all
        res = False
        while True:
            grp = low | sub
            if bin_ok[grp] and cover(mask ^ grp, bins - 1):
                res = True
                break
            if sub == 0:
                break
            sub = (sub - 1) & rest_all
        reach[key] = res
        return res

    return cover(full, k)
