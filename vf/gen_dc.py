"""Hypothesis strategies and object builders for the dynamic-control checks.

All strategies return plain JSON data; the ``build_*`` functions turn a case
into objects of the repository (imports of moptipyapps happen inside the
functions). Everything random is drawn by Hypothesis.
"""
from __future__ import annotations

import math
from typing import Any

from hypothesis import strategies as st

PARAM_LO, PARAM_HI = -32.0, 32.0


def _f(lo: float, hi: float) -> Any:
    return st.floats(lo, hi, allow_nan=False, allow_infinity=False,
                     allow_subnormal=False)


@st.composite
def _signed_mag(draw: Any, lo: float, hi: float) -> float:
    """Log-uniform magnitude in [lo, hi] with a random sign."""
    e = draw(_f(math.log10(lo), math.log10(hi)))
    v = 10.0 ** e
    return -v if draw(st.booleans()) else v


STATE_CLASSES = ("normal", "normal", "tiny", "large", "zeros", "ints",
                 "mixed")


@st.composite
def states(draw: Any, dim: int, classes: tuple = STATE_CLASSES,
           large: float = 1e6) -> list[float]:
    cls = draw(st.sampled_from(classes))
    if cls == "normal":
        return [draw(_signed_mag(1e-2, 10.0)) for _ in range(dim)]
    if cls == "tiny":
        return [draw(_signed_mag(1e-12, 1e-6)) for _ in range(dim)]
    if cls == "large":
        return [draw(_signed_mag(min(1e3, large / 10.0), large))
                for _ in range(dim)]
    if cls == "ints":
        return [float(draw(st.integers(-4, 4))) for _ in range(dim)]
    if cls == "zeros":
        res = [draw(_signed_mag(1e-2, 10.0)) for _ in range(dim)]
        zero = draw(st.lists(st.booleans(), min_size=dim, max_size=dim))
        if not any(zero):
            zero[draw(st.integers(0, dim - 1))] = True
        return [0.0 if z else v for v, z in zip(res, zero)]
    return [draw(st.one_of(_signed_mag(1e-12, 1e-6), _signed_mag(1e-2, 10.0),
                           _signed_mag(min(1e3, large / 10.0), large),
                           st.just(0.0)))
            for _ in range(dim)]


def state_class(state: list[float]) -> str:
    if any(v == 0.0 for v in state):
        return "has_zero"
    m = max(abs(v) for v in state)
    lo = min(abs(v) for v in state)
    if m < 1e-5:
        return "tiny"
    if lo >= 1e3:
        return "large"
    if lo >= 1e-3 and m <= 10.0:
        return "normal"
    return "mixed"


@st.composite
def _expand_seed(draw: Any, n: int, lo: float, hi: float) -> list[float]:
    """Long uniform vectors: the seed is drawn by Hypothesis, the expanded
    vector is stored in the case (replays do not depend on numpy's RNG)."""
    import numpy as np
    seed = draw(st.integers(0, 2 ** 32 - 1))
    return [float(v) for v in np.random.default_rng(seed).uniform(lo, hi, n)]


@st.composite
def pvec(draw: Any, n: int, lo: float = PARAM_LO, hi: float = PARAM_HI,
         kinds: tuple = ("uniform", "rng", "rng", "unit", "corner",
                         "near_zero", "ints", "sparse")) -> list[float]:
    """A parameter vector from the box [lo, hi]^n."""
    kind = draw(st.sampled_from(kinds))
    if kind == "rng":
        return draw(_expand_seed(n, lo, hi))
    if kind == "uniform":
        if n > 40:
            return draw(_expand_seed(n, lo, hi))
        return [draw(_f(lo, hi)) for _ in range(n)]
    if kind == "unit":
        k = draw(st.integers(0, n - 1))
        v = draw(st.sampled_from([1.0, -1.0, hi, lo, 0.5]))
        return [v if i == k else 0.0 for i in range(n)]
    if kind == "corner":
        if n > 40:
            import numpy as np
            seed = draw(st.integers(0, 2 ** 32 - 1))
            pick = np.random.default_rng(seed).integers(0, 3, n)
            return [(lo, hi, 0.0)[int(i)] for i in pick]
        return [draw(st.sampled_from([lo, hi, lo, hi, 0.0]))
                for _ in range(n)]
    if kind == "near_zero":
        if n > 40:
            return draw(_expand_seed(n, -1e-3, 1e-3))
        return [draw(_f(-1e-3, 1e-3)) for _ in range(n)]
    if kind == "rng_small":
        return draw(_expand_seed(n, -0.2, 0.2))
    if kind == "ints":
        if n > 40:
            return [float(round(v)) for v in draw(_expand_seed(n, -4, 4))]
        return [float(draw(st.integers(-4, 4))) for _ in range(n)]
    # sparse: a few non-zero entries
    if n > 40:
        base = draw(_expand_seed(n, lo, hi))
        return [v if (i % 7 == 0) else 0.0 for i, v in enumerate(base)]
    return [draw(_f(lo, hi)) if draw(st.integers(0, 3)) == 0 else 0.0
            for _ in range(n)]


def times() -> Any:
    return st.one_of(st.just(0.0), _f(0.0, 50.0))


# ----------------------------------------------------------------------------
# C16: cases
# ----------------------------------------------------------------------------

POLY_DEGREE = {"linear": 1, "quadratic": 2, "cubic": 3}


@st.composite
def poly_cases(draw: Any) -> dict:
    from vf import oracle_dc
    name = draw(st.sampled_from(["linear", "quadratic", "cubic", "cubic"]))
    dim = draw(st.sampled_from([2, 3, 3]))
    n = len(oracle_dc.monomials(dim, POLY_DEGREE[name]))
    return {"ctrl": name, "dim": dim, "state": draw(states(dim)),
            "t": draw(times()), "params": draw(pvec(n))}


@st.composite
def plin_cases(draw: Any) -> dict:
    dim = draw(st.sampled_from([2, 3]))
    k = draw(st.sampled_from([2, 3, 3, 4, 4]))
    geometry = draw(st.sampled_from(["box", "box", "near", "ints", "dup"]))
    if geometry == "ints":
        state = [float(draw(st.integers(-4, 4))) for _ in range(dim)]
    else:
        state = draw(states(dim, classes=("normal", "normal", "zeros",
                                          "ints", "large"), large=30.0))
    params: list[float] = []
    for i in range(k):
        if geometry == "box":
            anchor = [draw(_f(PARAM_LO, PARAM_HI)) for _ in range(dim)]
        elif geometry == "near":
            # anchors around the state: the order of the distances is random
            anchor = [max(PARAM_LO, min(PARAM_HI, s + draw(_f(-3.0, 3.0))))
                      for s in state]
        elif geometry == "ints":
            anchor = [float(draw(st.integers(-6, 6))) for _ in range(dim)]
        else:  # dup: some anchors coincide -> exact ties
            if i > 0 and draw(st.booleans()):
                j = draw(st.integers(0, i - 1))
                anchor = params[j * 2 * dim: j * 2 * dim + dim]
            else:
                anchor = [draw(_f(-8.0, 8.0)) for _ in range(dim)]
        law = [draw(_f(PARAM_LO, PARAM_HI)) for _ in range(dim)]
        params.extend(anchor)
        params.extend(law)
    return {"dim": dim, "k": k, "state": state, "t": draw(times()),
            "params": params, "geometry": geometry}


BUNDLED_ANN_LAYERS = ([], [1], [2], [3], [2, 2], [3, 2])


@st.composite
def net_cases(draw: Any) -> dict:
    """Bundled peak networks and bundled ANNs (2-D, 3-D)."""
    from vf import oracle_dc
    dim = draw(st.sampled_from([2, 3]))
    if draw(st.booleans()):
        n = draw(st.integers(1, 3))
        return {"kind": "peaks", "dim": dim, "n": n,
                "state": draw(states(dim, large=1e4)), "t": draw(times()),
                "params": draw(pvec(n * (2 + dim)))}
    layers = list(draw(st.sampled_from(BUNDLED_ANN_LAYERS)))
    return {"kind": "ann", "dim": dim, "layers": layers,
            "state": draw(states(dim)), "t": draw(times()),
            "params": draw(pvec(oracle_dc.ann_param_count(dim, 1, layers)))}


@st.composite
def arch_cases(draw: Any, n_evals: int = 6) -> dict:
    """A generated network architecture with several evaluation points."""
    from vf import oracle_dc
    n_in = draw(st.sampled_from([1, 2, 2, 3, 3, 4, 5, 6, 6]))
    n_out = draw(st.integers(1, 6))
    layers = draw(st.lists(st.integers(1, 8), min_size=0, max_size=3))
    n = oracle_dc.ann_param_count(n_in, n_out, layers)
    evals = []
    if n_in >= 2:
        for _ in range(n_evals):
            evals.append({"state": draw(states(n_in)), "t": draw(times()),
                          "params": draw(pvec(n))})
    return {"in": n_in, "out": n_out, "layers": layers, "evals": evals}


@st.composite
def min_ann_cases(draw: Any, param_dims: dict) -> dict:
    """``param_dims[(dim, which)]`` = number of parameters."""
    dim = draw(st.sampled_from([2, 3]))
    which = draw(st.integers(1, 3))
    return {"dim": dim, "which": which,
            "state": draw(states(dim, large=1e4)), "t": draw(times()),
            "params": draw(pvec(param_dims[(dim, which)], kinds=(
                "rng", "rng", "rng", "rng_small", "rng_small", "uniform",
                "unit", "corner", "near_zero", "ints")))}


@st.composite
def predef_cases(draw: Any) -> dict:
    name = draw(st.sampled_from(["cornejo_maceda", "table_3_1_ga",
                                 "table_3_1_lgpc"]))
    dim, n = {"cornejo_maceda": (2, 3), "table_3_1_ga": (3, 2),
              "table_3_1_lgpc": (3, 4)}[name]
    return {"ctrl": name, "dim": dim, "state": draw(states(dim)),
            "t": draw(times()), "params": draw(pvec(n))}


@st.composite
def system_cases(draw: Any) -> dict:
    name = draw(st.sampled_from(["stuart_landau", "lorenz", "3oscillators"]))
    dim = {"stuart_landau": 2, "lorenz": 3, "3oscillators": 6}[name]
    control = draw(st.one_of(st.just(0.0), _f(-32.0, 32.0),
                             _signed_mag(1e-6, 1e9)))
    return {"sys": name, "state": draw(states(dim, large=1e5)),
            "t": draw(times()), "control": [control]}


# ----------------------------------------------------------------------------
# building repository objects
# ----------------------------------------------------------------------------

_CACHE: dict[Any, Any] = {}


def bundled_system(name: str) -> Any:
    """The bundled system objects (4 training points)."""
    if name == "stuart_landau":
        from moptipyapps.dynamic_control.systems.stuart_landau import (
            STUART_LANDAU_4,
        )
        return STUART_LANDAU_4
    if name == "lorenz":
        from moptipyapps.dynamic_control.systems.lorenz import LORENZ_4
        return LORENZ_4
    if name == "3oscillators":
        from moptipyapps.dynamic_control.systems.three_coupled_oscillators \
            import THREE_COUPLED_OSCILLATORS
        return THREE_COUPLED_OSCILLATORS
    raise ValueError(name)


def system_for_dim(dim: int) -> Any:
    return bundled_system({2: "stuart_landau", 3: "lorenz",
                           6: "3oscillators"}[dim])


def bundled_controllers(dim: int) -> dict[str, Any]:
    """name -> Controller for all bundled blueprints of a dimension (the
    factories are called exactly as the experiments call them)."""
    key = ("ctrl", dim)
    if key in _CACHE:
        return _CACHE[key]
    from moptipyapps.dynamic_control.controllers.ann import anns
    system = system_for_dim(dim)
    res: dict[str, Any] = {}
    if dim in (2, 3):
        from moptipyapps.dynamic_control.controllers.cubic import cubic
        from moptipyapps.dynamic_control.controllers.linear import linear
        from moptipyapps.dynamic_control.controllers.min_ann import min_anns
        from moptipyapps.dynamic_control.controllers.partially_linear import (
            partially_linear,
        )
        from moptipyapps.dynamic_control.controllers.peaks import peaks
        from moptipyapps.dynamic_control.controllers.predefined import (
            predefined,
        )
        from moptipyapps.dynamic_control.controllers.quadratic import (
            quadratic,
        )
        ctrls = [linear(system), quadratic(system), cubic(system)]
        ctrls.extend(min_anns(system))
        ctrls.extend(partially_linear(system))
        ctrls.extend(predefined(system))
        ctrls.extend(peaks(system))
        for c in ctrls:
            res[c.name] = c
    for c in anns(system):
        res[c.name] = c
    _CACHE[key] = res
    return res


def ann_name(layers: list[int]) -> str:
    return "ann_" + "_".join(map(str, layers)) if layers else "ann"


# ----------------------------------------------------------------------------
# C10: programs = (equations, controller) pairs
# ----------------------------------------------------------------------------

#: values an ill-behaved controller / differential may produce
BAD_VALUES = ("nan", "inf", "-inf", 1e50, -1e50, 1e300, 1e10, -1e10, 5e10,
              -1e11, 9.9e9, -9.9e9)


def bad_value(v: Any) -> float:
    return float(v)


def value_is_ok(v: float) -> bool:
    """Inside the documented sane range (-1e10, 1e10)."""
    return -1e10 < v < 1e10


#: the same without the values inside (-1e10, 1e10): a huge but admissible
#: constant forcing makes the cubic damping of the bundled systems extremely
#: stiff (millions of RK45 steps) - a cost limit, see DESIGN.md section 7
BAD_VALUES_OUTSIDE = tuple(v for v in BAD_VALUES
                           if not isinstance(v, float) or abs(v) >= 1e10)


@st.composite
def _fault(draw: Any, n_out: int, max_time: float, allow_exp: bool,
           stiff_base: bool = False) -> dict:
    when = draw(st.sampled_from(
        ["always", "after", "after", "norm", "norm", "window", "window"]
        + (["exp", "exp"] if allow_exp else [])))
    if when == "exp":
        return {"when": "exp", "p": draw(_f(0.5, 50.0)),
                "sign": draw(st.sampled_from([1.0, -1.0])),
                "index": draw(st.integers(0, n_out - 1))}
    values = BAD_VALUES_OUTSIDE if stiff_base else BAD_VALUES
    f = {"when": when, "value": draw(st.sampled_from(values)),
         "index": draw(st.integers(-1, n_out - 1))}  # -1 = all entries
    if when == "window":
        # out of range only during a short time window: the integrator may
        # step over it while some of the equidistant result rows fall into it
        f["p"] = draw(_f(0.05 * max_time, 0.95 * max_time))
        f["w"] = draw(_f(0.01 * max_time, 0.12 * max_time))
    elif when == "after":
        f["p"] = draw(st.one_of(_f(0.0, max_time), _f(0.0, 1.5 * max_time),
                                st.just(0.0)))
    elif when == "norm":
        f["p"] = draw(_signed_mag(1e-2, 1e4).map(abs))
    return f


@st.composite
def _linear_equations(draw: Any, dims: tuple = (2, 6), cdim_max: int = 2,
                      growth: float = 0.5) -> dict:
    n = draw(st.integers(*dims))
    blocks: list[list[float]] = []
    left = n
    while left > 0:
        if left >= 2 and draw(st.booleans()):
            blocks.append([draw(_f(-3.0, growth)), draw(_f(0.0, 6.0))])
            left -= 2
        else:
            blocks.append([draw(st.one_of(_f(-3.0, growth), st.just(0.0)))])
            left -= 1
    cdim = draw(st.integers(1, cdim_max))
    b = [[draw(st.one_of(st.just(0.0), _f(-2.0, 2.0))) for _ in range(cdim)]
         for _ in range(n)]
    return {"kind": "linear", "blocks": blocks, "b": b}


@st.composite
def _linear_controller(draw: Any, n: int, cdim: int) -> dict:
    kind = draw(st.sampled_from(["zero", "const", "feedback", "feedback"]))
    c = [0.0] * cdim
    k = [[0.0] * n for _ in range(cdim)]
    if kind in ("const", "feedback"):
        c = [draw(_f(-3.0, 3.0)) for _ in range(cdim)]
    if kind == "feedback":
        if draw(st.booleans()):
            c = [0.0] * cdim
        k = [[draw(st.one_of(st.just(0.0), _f(-2.0, 2.0)))
              for _ in range(n)] for _ in range(cdim)]
    return {"kind": "linear", "sub": kind, "c": c, "K": k}


@st.composite
def _start(draw: Any, n: int) -> list[float]:
    return [draw(st.one_of(_signed_mag(1e-3, 10.0), _signed_mag(1e-3, 10.0),
                           st.just(0.0))) for _ in range(n)]


@st.composite
def _budget(draw: Any, max_steps: int, max_time: float) -> tuple[int, float]:
    steps = draw(st.one_of(st.integers(10, max_steps), st.integers(10, 30)))
    t = draw(st.one_of(_f(0.1, max_time), _f(0.1, min(2.0, max_time))))
    return steps, t


@st.composite
def _jspec(draw: Any, n: int) -> dict:
    return {"use": draw(st.sampled_from([-1, 0, *range(1, n + 1)])),
            "gamma": draw(st.sampled_from([0.0, 0.1, 1.0, 0.1, 2.5]))}


def n_of_blocks(blocks: list[list[float]]) -> int:
    return sum(len(b) for b in blocks)


@st.composite
def linear_programs(draw: Any, max_steps: int = 200,
                    max_time: float = 20.0) -> dict:
    """Family (a): ds/dt = A s + B u with u = c - K s."""
    eq = draw(_linear_equations())
    n = n_of_blocks(eq["blocks"])
    cdim = len(eq["b"][0])
    steps, t = draw(_budget(max_steps, max_time))
    return {"eq": eq, "ctrl": draw(_linear_controller(n, cdim)),
            "start": draw(_start(n)), "steps": steps, "max_time": t,
            "j": draw(_jspec(n))}


BUNDLED_SYSTEMS = ("stuart_landau", "lorenz", "3oscillators")
SYSTEM_DIM = {"stuart_landau": 2, "lorenz": 3, "3oscillators": 6}


def controller_catalog() -> dict[int, list[tuple[str, int]]]:
    """dim -> [(controller name, param_dims)] of all bundled blueprints."""
    res = {}
    for dim in (2, 3, 6):
        res[dim] = sorted((name, int(c.param_dims))
                          for name, c in bundled_controllers(dim).items())
    return res


@st.composite
def _bundled_controller(draw: Any, catalog: dict, dim: int,
                        wild: bool = True) -> dict:
    name, n = draw(st.sampled_from(catalog[dim]))
    kinds = ("rng", "rng", "near_zero", "rng_small", "unit", "ints")
    if wild:
        kinds = (*kinds, "corner", "uniform")
    return {"kind": "bundled", "name": name, "dim": dim,
            "params": draw(pvec(n, kinds=kinds))}


@st.composite
def _bundled_start(draw: Any, name: str) -> list[float]:
    n = SYSTEM_DIM[name]
    scale = {"stuart_landau": 0.5, "lorenz": 20.0, "3oscillators": 0.3}[name]
    if draw(st.booleans()):
        return [draw(_f(-scale, scale)) for _ in range(n)]
    return draw(_start(n))


@st.composite
def bundled_programs(draw: Any, catalog: dict, max_steps: int = 120,
                     max_time: float = 5.0) -> dict:
    """Family (b): bundled systems x bundled controllers."""
    name = draw(st.sampled_from(BUNDLED_SYSTEMS))
    n = SYSTEM_DIM[name]
    steps, t = draw(_budget(max_steps, max_time))
    return {"eq": {"kind": "bundled", "name": name},
            "ctrl": draw(_bundled_controller(catalog, n)),
            "start": draw(_bundled_start(name)), "steps": steps,
            "max_time": t, "j": draw(_jspec(n))}


@st.composite
def adversarial_programs(draw: Any, catalog: dict, max_steps: int = 120,
                         max_time: float = 10.0) -> dict:
    """Families (c) and (d): a well-behaved program with a fault in the
    controller and/or in the differential."""
    stiff = draw(st.integers(0, 2)) == 0
    if stiff:
        base = draw(bundled_programs(catalog, max_steps, min(max_time, 5.0)))
        base["ctrl"]["params"] = draw(pvec(
            len(base["ctrl"]["params"]),
            kinds=("near_zero", "rng_small", "ints")))
        n = SYSTEM_DIM[base["eq"]["name"]]
        cdim = 1
    else:
        base = draw(linear_programs(max_steps, max_time))
        n = len(base["start"])
        cdim = len(base["eq"]["b"][0])
    which = draw(st.sampled_from(["ctrl", "ctrl", "eq", "both"]))
    t = base["max_time"]
    if which in ("ctrl", "both"):
        # exp(p t) growth only on the linear systems (same cost limit)
        base["ctrl"]["fault"] = draw(_fault(cdim, t, not stiff, stiff))
    if which in ("eq", "both"):
        base["eq"]["fault"] = draw(_fault(n, t, False, stiff))
    return base


def nan_at_start_programs() -> list[dict]:
    """Explicit programs whose differential is NaN at t=0."""
    out = []
    for i, (blocks, start, steps, t, idx) in enumerate([
            ([[-1.0], [-1.0]], [1.0, 2.0], 20, 5.0, -1),
            ([[-0.5, 2.0], [0.0]], [0.5, -0.25, 3.0], 50, 1.0, 1),
            ([[0.1], [-2.0], [-1.0, 1.0]], [0.0, 0.0, 0.0, 0.0], 10, 20.0,
             3)]):
        n = n_of_blocks(blocks)
        out.append({
            "eq": {"kind": "linear", "blocks": blocks,
                   "b": [[1.0] for _ in range(n)],
                   "fault": {"when": "always", "value": "nan", "index": idx}},
            "ctrl": {"kind": "linear", "sub": "zero", "c": [0.0],
                     "K": [[0.0] * n]},
            "start": start, "steps": steps, "max_time": t,
            "j": {"use": -1, "gamma": 0.1}, "id": i})
    out.append({
        "eq": {"kind": "bundled", "name": "lorenz",
               "fault": {"when": "always", "value": "nan", "index": 2}},
        "ctrl": {"kind": "bundled", "name": "linear", "dim": 3,
                 "params": [0.5, -0.5, 0.25]},
        "start": [1.0, 1.0, 1.0], "steps": 30, "max_time": 2.0,
        "j": {"use": -1, "gamma": 0.1}, "id": 3})
    return out


@st.composite
def ode_arrays(draw: Any) -> dict:
    """Synthetic simulation results for the figure of merit / differential
    functions: strictly increasing, non-uniform times starting at 0."""
    n = draw(st.integers(1, 4))
    cdim = draw(st.integers(1, 3))
    rows = draw(st.integers(2, 9))
    val = st.one_of(_f(-10.0, 10.0), st.integers(-3, 3).map(float),
                    _signed_mag(1e-6, 1e9))
    cval = val
    if draw(st.integers(0, 3)) == 0:  # values at / beyond the 1e100 clamp
        cval = st.one_of(val, val, val, st.sampled_from(
            [1e100, -1e100, 1e150, 9.99e99]))
    t = 0.0
    data = []
    for _ in range(rows):
        data.append([draw(val) for _ in range(n)]
                    + [draw(cval) for _ in range(cdim)] + [t])
        t += draw(st.one_of(_f(1e-3, 5.0), st.integers(1, 4).map(float)))
    return {"rows": data, "n": n, "j": draw(_jspec(n))}


# -- building programs -------------------------------------------------------

def _fault_active(fault: dict, state: Any, t: float,
                  control: Any = None) -> bool:
    when = fault["when"]
    if when == "control":  # equations only: |control| beyond a threshold
        return max(abs(float(v)) for v in control) > fault["p"]
    if when == "always":
        return True
    if when == "window":
        return fault["p"] < t < fault["p"] + fault["w"]
    if when == "after":
        return t > fault["p"]
    if when == "norm":
        return max(abs(float(v)) for v in state) > fault["p"]
    raise ValueError(when)


def _apply_fault(fault: dict, state: Any, t: float, out: Any,
                 control: Any = None) -> None:
    if fault["when"] == "exp":
        out[fault["index"]] += fault["sign"] * math.exp(
            min(fault["p"] * t, 700.0))
        return
    if _fault_active(fault, state, t, control):
        v = bad_value(fault["value"])
        if fault["index"] < 0:
            out[:] = v
        else:
            out[fault["index"]] = v


def build_equations(spec: dict) -> Any:
    """A callable ``equations(state, t, control, out)`` (pure function)."""
    import numpy as np
    fault = spec.get("fault")
    if spec["kind"] == "linear":
        from vf.oracle_dc import linear_blocks_matrix
        a = linear_blocks_matrix(spec["blocks"])
        b = np.array(spec["b"], dtype=float)

        def base(state: Any, _t: float, control: Any, out: Any) -> None:
            out[:] = a @ state + b @ control
    else:
        base = bundled_system(spec["name"]).equations
    if fault is None:
        return base

    def faulty(state: Any, t: float, control: Any, out: Any) -> None:
        base(state, t, control, out)
        _apply_fault(fault, state, t, out, control)
    return faulty


class WorkLimit(BaseException):
    """More controller invocations than the work budget of a case."""


class WorkCounter:
    """Counts controller invocations; a deterministic work budget (not a
    time limit): exceeding ``limit`` raises :class:`WorkLimit`."""

    def __init__(self, limit: Any = None) -> None:
        self.n = 0
        self.limit = limit

    def wrap(self, fn: Any) -> Any:
        def counted(state: Any, t: float, p: Any, out: Any) -> None:
            self.n += 1
            if self.limit is not None and self.n > self.limit:
                raise WorkLimit
            fn(state, t, p, out)
        return counted


def build_controller(spec: dict, counter: Any = None) -> tuple[Any, Any, int]:
    """(controller callable, parameter array, control dims)."""
    fn, params, cdim = _build_controller(spec)
    if counter is not None:
        fn = counter.wrap(fn)
    return fn, params, cdim


def _build_controller(spec: dict) -> tuple[Any, Any, int]:
    import numpy as np
    fault = spec.get("fault")
    if spec["kind"] == "linear":
        cdim = len(spec["c"])
        n = len(spec["K"][0])
        params = np.array(list(spec["c"]) + [v for row in spec["K"]
                                             for v in row], dtype=float)

        def base(state: Any, _t: float, p: Any, out: Any) -> None:
            for j in range(cdim):
                acc = p[j]
                off = cdim + j * n
                for i in range(n):
                    acc -= p[off + i] * state[i]
                out[j] = acc
    else:
        ctrl = bundled_controllers(spec["dim"])[spec["name"]]
        base = ctrl.controller
        cdim = int(ctrl.control_dims)
        params = np.array(spec["params"], dtype=float)
    if fault is None:
        return base, params, cdim

    def faulty(state: Any, t: float, p: Any, out: Any) -> None:
        base(state, t, p, out)
        _apply_fault(fault, state, t, out)
    return faulty, params, cdim


# ----------------------------------------------------------------------------
# C11: histories on one objective object
# ----------------------------------------------------------------------------

def _fault_key(fault: Any) -> Any:
    return None if not fault else tuple(sorted(
        (k, str(v)) for k, v in fault.items()))


def rebuilt_system(name: str, steps: int, time: float,
                   fault: Any = None, tdtype: Any = None) -> Any:
    """The bundled system rebuilt through the public ``System`` constructor
    with a small training budget (same training states; the bundled
    equations, optionally with a state-dependent fault as in C10)."""
    key = ("sys", name, int(steps), float(time), _fault_key(fault), tdtype)
    if key in _CACHE:
        return _CACHE[key]
    import numpy as np
    from moptipyapps.dynamic_control.system import System
    orig = bundled_system(name)
    training = orig.training_starting_states
    if tdtype == "float32":  # starting states given in another number type
        training = training.astype(np.float32)
    elif tdtype == "int64":
        training = np.rint(training * {"stuart_landau": 4.0, "lorenz": 1.0,
                                       "3oscillators": 8.0}[name]
                           ).astype(np.int64)
    system = System(orig.name, orig.state_dims, orig.control_dims,
                    orig.state_dim_mod, orig.state_dims_in_j, orig.gamma,
                    orig.test_starting_states,
                    training,
                    # the test budget differs from the training budget: the
                    # objective is defined over the training cases only
                    int(steps) + 3, float(time) * 1.5,
                    int(steps), float(time), (0, ))
    spec = {"kind": "bundled", "name": name}
    if fault:
        spec["fault"] = fault
    system.equations = build_equations(spec)  # type: ignore
    if len(_CACHE) > 400:
        for k in [k for k in _CACHE if k[0] in ("sys", "inst")]:
            del _CACHE[k]
    _CACHE[key] = system
    return system


def build_instance_dc(init: dict) -> Any:
    """Instance of the rebuilt system and the bundled controller blueprint;
    the blueprint's function is wrapped by a :class:`WorkCounter` (attribute
    ``work_counter`` of the returned instance) through the public
    ``Controller`` constructor."""
    key = ("inst", init["sys"], init["ctrl"], int(init["steps"]),
           float(init["time"]), _fault_key(init.get("fault")),
           init.get("tdtype"))
    if key in _CACHE:
        return _CACHE[key]
    from moptipyapps.dynamic_control.controller import Controller
    from moptipyapps.dynamic_control.instance import Instance
    system = rebuilt_system(init["sys"], init["steps"], init["time"],
                            init.get("fault"), init.get("tdtype"))
    orig = bundled_controllers(SYSTEM_DIM[init["sys"]])[init["ctrl"]]
    counter = WorkCounter()
    ctrl = Controller(orig.name, orig.state_dims, orig.control_dims,
                      orig.param_dims, counter.wrap(orig.controller))
    inst = Instance(system, ctrl)
    inst.work_counter = counter  # type: ignore
    _CACHE[key] = inst
    return inst


def build_objective(init: dict) -> Any:
    from moptipyapps.dynamic_control import objective
    cls = getattr(objective, init["cls"])
    return cls(build_instance_dc(init), bool(init["smm"]))


def build_surrogate(spec: dict, objective: Any = None) -> Any:
    """Surrogate equations: a linear map of (state, control) plus bias;
    optionally NaN where max|s| exceeds ``nan_beyond``. Kind "identity" is
    the perfect surrogate: the real system's own equation function of the
    objective it is handed to."""
    import numpy as np
    if spec.get("kind") == "identity":
        if objective is None:
            raise ValueError("identity surrogate needs the objective")
        return objective.instance.system.equations
    w = np.array(spec["W"], dtype=float)
    bias = np.array(spec["bias"], dtype=float)
    beyond = spec.get("nan_beyond")

    def model(state: Any, _t: float, control: Any, out: Any) -> None:
        out[:] = w @ np.concatenate((state, control)) + bias
        if beyond is not None and max(abs(float(v)) for v in state) > beyond:
            out[:] = math.nan
    return model


def training_norms(name: str) -> list[float]:
    """max|component| of the bundled training states, sorted."""
    tr = bundled_system(name).training_starting_states
    return sorted(float(abs(row).max()) for row in tr)


@st.composite
def _norm_threshold(draw: Any, name: str) -> float:
    """A threshold below, between or above the training-state norms."""
    norms = training_norms(name)
    i = draw(st.integers(0, len(norms)))
    lo = norms[i - 1] if i > 0 else norms[0] / 4.0
    hi = norms[i] if i < len(norms) else norms[-1] * 4.0
    return draw(_f(lo + 0.05 * (hi - lo), hi - 0.05 * (hi - lo)))


def objective_inits(catalog: dict) -> Any:
    @st.composite
    def inits(draw: Any) -> dict:
        name = draw(st.sampled_from(BUNDLED_SYSTEMS))
        ctrl, n = draw(st.sampled_from(catalog[SYSTEM_DIM[name]]))
        init = {"sys": name, "ctrl": ctrl, "n_params": n,
                "cls": draw(st.sampled_from(["FigureOfMerit",
                                             "FigureOfMeritLE"])),
                "smm": draw(st.sampled_from([True] * 5 + [False])),
                "steps": draw(st.integers(10, 40)),
                "time": draw(_f(0.5, 5.0))}
        tdt = draw(st.sampled_from([None, None, None, None, "float32",
                                    "int64"]))
        if tdt:
            init["tdtype"] = tdt
        kind = draw(st.sampled_from([0, 1, 2, 3, 4, 5, 6, 7, 8, 9]))
        if kind < 2:
            # the differential is undefined where the control effort (or,
            # rarely, the state) exceeds a threshold: whether a training
            # case fails (-> 1e200 evaluations) depends on x
            init["fault"] = {
                "when": "control", "index": -1,
                "p": {"stuart_landau": 0.3, "lorenz": 20.0,
                      "3oscillators": 1.0}[name] * 10.0 ** draw(
                          _f(-0.3, 2.0)),
                "value": draw(st.sampled_from(["nan", "inf", 1e50]))}
        elif kind < 4:
            init["fault"] = {
                "when": "norm", "index": -1, "p": draw(_norm_threshold(name)),
                "value": draw(st.sampled_from(["nan", "inf", 1e50]))}
        return init
    return inits()


@st.composite
def objective_x(draw: Any, init: dict) -> list[float]:
    """Mostly tame vectors (|x_i| <= 4), sometimes the full box."""
    n = init["n_params"]
    if draw(st.integers(0, 4)) == 0:
        return draw(pvec(n, kinds=("rng", "corner", "unit", "uniform")))
    return draw(pvec(n, lo=-4.0, hi=4.0, kinds=(
        "rng", "rng", "near_zero", "rng_small", "corner", "unit", "ints")))


@st.composite
def surrogate_specs(draw: Any, name: str, cdim: int = 1) -> dict:
    n = SYSTEM_DIM[name]
    kind = draw(st.sampled_from(["decay", "decay", "random", "zero",
                                 "nan_beyond", "growth", "identity"]))
    if kind == "identity":
        return {"W": [], "bias": [], "kind": kind}
    w = [[0.0] * (n + cdim) for _ in range(n)]
    if kind in ("decay", "nan_beyond"):
        for i in range(n):
            w[i][i] = draw(_f(-2.0, -0.1))
            for j in range(cdim):
                w[i][n + j] = draw(_f(-1.0, 1.0))
    elif kind == "random":
        w = [[draw(_f(-1.0, 1.0)) for _ in range(n + cdim)]
             for _ in range(n)]
    elif kind == "growth":
        # exponential growth towards the 1e10 limit: shortened simulations
        # with huge (but admissible) figures of merit
        for i in range(n):
            w[i][i] = draw(_f(1.0, 20.0))
    bias = [draw(st.one_of(st.just(0.0), _f(-0.5, 0.5))) for _ in range(n)]
    spec = {"W": w, "bias": bias, "kind": kind}
    if kind == "nan_beyond":
        spec["nan_beyond"] = draw(_norm_threshold(name))
    return spec


def objective_ops(ex: Any) -> Any:
    """Strategy of the next operation given the live executor (the mix
    depends on the mode the mirror model is in)."""
    init = ex.init
    fresh = objective_x(init).map(lambda x: {"op": "evaluate", "x": x})
    model = surrogate_specs(init["sys"]).map(
        lambda m: {"op": "set_model", "model": m})
    simple = {k: st.just({"op": k})
              for k in ("initialize", "set_raw", "get_differentials")}
    if not init["smm"]:
        tags = ["fresh"] * 4 + ["again"] * 2 + [
            "initialize", "set_raw", "set_model", "get_differentials"]
    elif ex.mode == "raw":
        tags = ["fresh"] * 3 + ["again"] * 2 + ["set_model"] * 3 + [
            "get_differentials", "initialize", "set_raw"]
    else:
        tags = ["fresh"] * 3 + ["again"] * 3 + ["set_raw"] * 3 + [
            "initialize", "set_model", "get_differentials"]
    if not ex.used:
        tags = [t for t in tags if t != "again"]

    def pick(tag: str) -> Any:
        if tag == "fresh":
            return fresh
        if tag == "again":
            return st.sampled_from(ex.used).map(
                lambda x: {"op": "evaluate", "x": list(x), "reuse": True})
        if tag == "set_model":
            return model
        return simple[tag]
    return st.sampled_from(tags).flatmap(pick)
