"""Hypothesis strategies and object builders for the dynamic-control checks.

All strategies return plain JSON data; the ``build_*`` functions turn a case
into objects of the repository (imports of moptipyapps happen inside the
functions). Everything random is drawn by Hypothesis.
"""
from __future__ import annotations

import math
from typing import Any

from hypothesis import strategies as st

PARAM_LO, PARAM_HI = -32.0, 32.0


def _f(lo: float, hi: float) -> Any:
    return st.floats(lo, hi, allow_nan=False, allow_infinity=False,
                     allow_subnormal=False)


@st.composite
def _signed_mag(draw: Any, lo: float, hi: float) -> float:
    """Log-uniform magnitude in [lo, hi] with a random sign."""
    e = draw(_f(math.log10(lo), math.log10(hi)))
    v = 10.0 ** e
    return -v if draw(st.booleans()) else v


STATE_CLASSES = ("normal", "normal", "tiny", "large", "zeros", "ints",
                 "mixed")


@st.composite
def states(draw: Any, dim: int, classes: tuple = STATE_CLASSES,
           large: float = 1e6) -> list[float]:
    cls = draw(st.sampled_from(classes))
    if cls == "normal":
        return [draw(_signed_mag(1e-2, 10.0)) for _ in range(dim)]
    if cls == "tiny":
        return [draw(_signed_mag(1e-12, 1e-6)) for _ in range(dim)]
    if cls == "large":
        return [draw(_signed_mag(min(1e3, large / 10.0), large))
                for _ in range(dim)]
    if cls == "ints":
        return [float(draw(st.integers(-4, 4))) for _ in range(dim)]
    if cls == "zeros":
        res = [draw(_signed_mag(1e-2, 10.0)) for _ in range(dim)]
        zero = draw(st.lists(st.booleans(), min_size=dim, max_size=dim))
        if not any(zero):
            zero[draw(st.integers(0, dim - 1))] = True
        return [0.0 if z else v for v, z in zip(res, zero)]
    return [draw(st.one_of(_signed_mag(1e-12, 1e-6), _signed_mag(1e-2, 10.0),
                           _signed_mag(min(1e3, large / 10.0), large),
                           st.just(0.0)))
            for _ in range(dim)]


def state_class(state: list[float]) -> str:
    if any(v == 0.0 for v in state):
        return "has_zero"
    m = max(abs(v) for v in state)
    lo = min(abs(v) for v in state)
    if m < 1e-5:
        return "tiny"
    if lo >= 1e3:
        return "large"
    if lo >= 1e-3 and m <= 10.0:
        return "normal"
    return "mixed"


@st.composite
def _expand_seed(draw: Any, n: int, lo: float, hi: float) -> list[float]:
    """Long uniform vectors: the seed is drawn by Hypothesis, the expanded
    vector is stored in the case (replays do not depend on numpy's RNG)."""
    import numpy as np
    seed = draw(st.integers(0, 2 ** 32 - 1))
    return [float(v) for v in np.random.default_rng(seed).uniform(lo, hi, n)]


@st.composite
def pvec(draw: Any, n: int, lo: float = PARAM_LO, hi: float = PARAM_HI,
         kinds: tuple = ("uniform", "rng", "rng", "unit", "corner",
                         "near_zero", "ints", "sparse")) -> list[float]:
    """A parameter vector from the box [lo, hi]^n."""
    kind = draw(st.sampled_from(kinds))
    if kind == "rng":
        return draw(_expand_seed(n, lo, hi))
    if kind == "uniform":
        if n > 40:
            return draw(_expand_seed(n, lo, hi))
        return [draw(_f(lo, hi)) for _ in range(n)]
    if kind == "unit":
        k = draw(st.integers(0, n - 1))
        v = draw(st.sampled_from([1.0, -1.0, hi, lo, 0.5]))
        return [v if i == k else 0.0 for i in range(n)]
    if kind == "corner":
        if n > 40:
            import numpy as np
            seed = draw(st.integers(0, 2 ** 32 - 1))
            pick = np.random.default_rng(seed).integers(0, 3, n)
            return [(lo, hi, 0.0)[int(i)] for i in pick]
        return [draw(st.sampled_from([lo, hi, lo, hi, 0.0]))
                for _ in range(n)]
    if kind == "near_zero":
        if n > 40:
            return draw(_expand_seed(n, -1e-3, 1e-3))
        return [draw(_f(-1e-3, 1e-3)) for _ in range(n)]
    if kind == "rng_small":
        return draw(_expand_seed(n, -0.2, 0.2))
    if kind == "ints":
        if n > 40:
            return [float(round(v)) for v in draw(_expand_seed(n, -4, 4))]
        return [float(draw(st.integers(-4, 4))) for _ in range(n)]
    # sparse: a few non-zero entries
    if n > 40:
        base = draw(_expand_seed(n, lo, hi))
        return [v if (i % 7 == 0) else 0.0 for i, v in enumerate(base)]
    return [draw(_f(lo, hi)) if draw(st.integers(0, 3)) == 0 else 0.0
            for _ in range(n)]


def times() -> Any:
    return st.one_of(st.just(0.0), _f(0.0, 50.0))


# ----------------------------------------------------------------------------
# C16: cases
# ----------------------------------------------------------------------------

POLY_DEGREE = {"linear": 1, "quadratic": 2, "cubic": 3}


@st.composite
def poly_cases(draw: Any) -> dict:
    from vf import oracle_dc
    name = draw(st.sampled_from(["linear", "quadratic", "cubic", "cubic"]))
    dim = draw(st.sampled_from([2, 3, 3]))
    n = len(oracle_dc.monomials(dim, POLY_DEGREE[name]))
    return {"ctrl": name, "dim": dim, "state": draw(states(dim)),
            "t": draw(times()), "params": draw(pvec(n))}


@st.composite
def plin_cases(draw: Any) -> dict:
    dim = draw(st.sampled_from([2, 3]))
    k = draw(st.sampled_from([2, 3, 3, 4, 4]))
    geometry = draw(st.sampled_from(["box", "box", "near", "ints", "dup"]))
    if geometry == "ints":
        state = [float(draw(st.integers(-4, 4))) for _ in range(dim)]
    else:
        state = draw(states(dim, classes=("normal", "normal", "zeros",
                                          "ints", "large"), large=30.0))
    params: list[float] = []
    for i in range(k):
        if geometry == "box":
            anchor = [draw(_f(PARAM_LO, PARAM_HI)) for _ in range(dim)]
        elif geometry == "near":
            # anchors around the state: the order of the distances is random
            anchor = [max(PARAM_LO, min(PARAM_HI, s + draw(_f(-3.0, 3.0))))
                      for s in state]
        elif geometry == "ints":
            anchor = [float(draw(st.integers(-6, 6))) for _ in range(dim)]
        else:  # dup: some anchors coincide -> exact ties
            if i > 0 and draw(st.booleans()):
                j = draw(st.integers(0, i - 1))
                anchor = params[j * 2 * dim: j * 2 * dim + dim]
            else:
                anchor = [draw(_f(-8.0, 8.0)) for _ in range(dim)]
        law = [draw(_f(PARAM_LO, PARAM_HI)) for _ in range(dim)]
        params.extend(anchor)
        params.extend(law)
    return {"dim": dim, "k": k, "state": state, "t": draw(times()),
            "params": params, "geometry": geometry}


BUNDLED_ANN_LAYERS = ([], [1], [2], [3], [2, 2], [3, 2])


@st.composite
def net_cases(draw: Any) -> dict:
    """Bundled peak networks and bundled ANNs (2-D, 3-D)."""
    from vf import oracle_dc
    dim = draw(st.sampled_from([2, 3]))
    if draw(st.booleans()):
        n = draw(st.integers(1, 3))
        return {"kind": "peaks", "dim": dim, "n": n,
                "state": draw(states(dim, large=1e4)), "t": draw(times()),
                "params": draw(pvec(n * (2 + dim)))}
    layers = list(draw(st.sampled_from(BUNDLED_ANN_LAYERS)))
    return {"kind": "ann", "dim": dim, "layers": layers,
            "state": draw(states(dim)), "t": draw(times()),
            "params": draw(pvec(oracle_dc.ann_param_count(dim, 1, layers)))}


@st.composite
def arch_cases(draw: Any, n_evals: int = 6) -> dict:
    """A generated network architecture with several evaluation points."""
    from vf import oracle_dc
    n_in = draw(st.sampled_from([1, 2, 2, 3, 3, 4, 5, 6, 6]))
    n_out = draw(st.integers(1, 6))
    layers = draw(st.lists(st.integers(1, 8), min_size=0, max_size=3))
    n = oracle_dc.ann_param_count(n_in, n_out, layers)
    evals = []
    if n_in >= 2:
        for _ in range(n_evals):
            evals.append({"state": draw(states(n_in)), "t": draw(times()),
                          "params": draw(pvec(n))})
    return {"in": n_in, "out": n_out, "layers": layers, "evals": evals}


@st.composite
def min_ann_cases(draw: Any, param_dims: dict) -> dict:
    """``param_dims[(dim, which)]`` = number of parameters."""
    dim = draw(st.sampled_from([2, 3]))
    which = draw(st.integers(1, 3))
    return {"dim": dim, "which": which,
            "state": draw(states(dim, large=1e4)), "t": draw(times()),
            "params": draw(pvec(param_dims[(dim, which)], kinds=(
                "rng", "rng", "rng", "rng_small", "rng_small", "uniform",
                "unit", "corner", "near_zero", "ints")))}


@st.composite
def predef_cases(draw: Any) -> dict:
    name = draw(st.sampled_from(["cornejo_maceda", "table_3_1_ga",
                                 "table_3_1_lgpc"]))
    dim, n = {"cornejo_maceda": (2, 3), "table_3_1_ga": (3, 2),
              "table_3_1_lgpc": (3, 4)}[name]
    return {"ctrl": name, "dim": dim, "state": draw(states(dim)),
            "t": draw(times()), "params": draw(pvec(n))}


@st.composite
def system_cases(draw: Any) -> dict:
    name = draw(st.sampled_from(["stuart_landau", "lorenz", "3oscillators"]))
    dim = {"stuart_landau": 2, "lorenz": 3, "3oscillators": 6}[name]
    control = draw(st.one_of(st.just(0.0), _f(-32.0, 32.0),
                             _signed_mag(1e-6, 1e9)))
    return {"sys": name, "state": draw(states(dim, large=1e5)),
            "t": draw(times()), "control": [control]}


# ----------------------------------------------------------------------------
# building repository objects
# ----------------------------------------------------------------------------

_CACHE: dict[Any, Any] = {}


def bundled_system(name: str) -> Any:
    """The bundled system objects (4 training points)."""
    if name == "stuart_landau":
        from moptipyapps.dynamic_control.systems.stuart_landau import (
            STUART_LANDAU_4,
        )
        return STUART_LANDAU_4
    if name == "lorenz":
        from moptipyapps.dynamic_control.systems.lorenz import LORENZ_4
        return LORENZ_4
    if name == "3oscillators":
        from moptipyapps.dynamic_control.systems.three_coupled_oscillators \
            import THREE_COUPLED_OSCILLATORS
        return THREE_COUPLED_OSCILLATORS
    raise ValueError(name)


def system_for_dim(dim: int) -> Any:
    return bundled_system({2: "stuart_landau", 3: "lorenz",
                           6: "3oscillators"}[dim])


def bundled_controllers(dim: int) -> dict[str, Any]:
    """name -> Controller for all bundled blueprints of a dimension (the
    factories are called exactly as the experiments call them)."""
    key = ("ctrl", dim)
    if key in _CACHE:
        return _CACHE[key]
    from moptipyapps.dynamic_control.controllers.ann import anns
    system = system_for_dim(dim)
    res: dict[str, Any] = {}
    if dim in (2, 3):
        from moptipyapps.dynamic_control.controllers.cubic import cubic
        from moptipyapps.dynamic_control.controllers.linear import linear
        from moptipyapps.dynamic_control.controllers.min_ann import min_anns
        from moptipyapps.dynamic_control.controllers.partially_linear import (
            partially_linear,
        )
        from moptipyapps.dynamic_control.controllers.peaks import peaks
        from moptipyapps.dynamic_control.controllers.predefined import (
            predefined,
        )
        from moptipyapps.dynamic_control.controllers.quadratic import (
            quadratic,
        )
        ctrls = [linear(system), quadratic(system), cubic(system)]
        ctrls.extend(min_anns(system))
        ctrls.extend(partially_linear(system))
        ctrls.extend(predefined(system))
        ctrls.extend(peaks(system))
        for c in ctrls:
            res[c.name] = c
    for c in anns(system):
        res[c.name] = c
    _CACHE[key] = res
    return res


def ann_name(layers: list[int]) -> str:
    return "ann_" + "_".join(map(str, layers)) if layers else "ann"
