"""Hypothesis strategies for 2D bin packing: instances, permutations, packings.

All strategies return plain JSON data ("cases"); ``build_instance`` etc. turn a
case into the repository's objects. Instances are built by construction so
that the constructor's admission rule (min(w,h) <= min(W,H), max(w,h) <=
max(W,H)) always holds - no rejection sampling.
"""
from __future__ import annotations

from typing import Any

from hypothesis import strategies as st

# size classes ---------------------------------------------------------------
# name -> how bins are drawn. "thin" classes keep one bin side <= 4 and all
# items at thickness 1 in that direction: Instance.__new__ cuts items into
# squares and loops over q <= min(W,H)/2, so its cost explodes otherwise.
EDGE_POINTS = (127, 32767, 2 ** 31 - 1)

CLASSES_ALL = ("tiny", "small", "medium", "int8_edge", "int16_edge_thin",
               "int16_2d", "int32_edge_thin", "huge_thin", "nitems_edge")
CLASSES_CHEAP = ("tiny", "small", "medium", "int8_edge", "nitems_edge")


@st.composite
def _dims_for_class(draw: Any, cls: str) -> tuple[int, int, bool]:
    """Return (W, H, thin)."""
    if cls == "tiny":
        return draw(st.integers(1, 6)), draw(st.integers(1, 6)), False
    if cls == "small":
        return draw(st.integers(1, 40)), draw(st.integers(1, 40)), False
    if cls == "medium":
        return draw(st.integers(5, 60)), draw(st.integers(5, 60)), False
    if cls == "nitems_edge":
        return draw(st.integers(2, 12)), draw(st.integers(2, 12)), False
    if cls == "int8_edge":
        # max_dim + max_size + 1 around 127 <=> max_dim around 63
        a = draw(st.integers(60, 66))
        b = draw(st.integers(1, a))
        return (a, b, False) if draw(st.booleans()) else (b, a, False)
    if cls == "int16_2d":
        a = draw(st.integers(16380, 16386))
        b = draw(st.integers(2000, a))
        return (a, b, False) if draw(st.booleans()) else (b, a, False)
    if cls == "int16_edge_thin":
        a = draw(st.integers(16380, 16386))
    elif cls == "int32_edge_thin":
        a = draw(st.integers(2 ** 30 - 3, 2 ** 30 + 3))
    elif cls == "huge_thin":
        a = draw(st.sampled_from([10 ** 9, 10 ** 9 + 1, 2 ** 31, 2 ** 32 + 1,
                                  10 ** 12 - 1, 10 ** 12]))
    else:
        raise ValueError(cls)
    b = draw(st.integers(1, 4))
    return (a, b, True) if draw(st.booleans()) else (b, a, True)


@st.composite
def instances(draw: Any, classes: tuple[str, ...] = CLASSES_ALL,
              max_types: int = 6, max_mult: int = 4,
              max_items: int = 14) -> dict:
    """An instance case: {"cls", "W", "H", "items": [[w, h, mult], ...]}."""
    cls = draw(st.sampled_from(classes))
    W, H, thin = draw(_dims_for_class(cls))
    lo, hi = min(W, H), max(W, H)
    n_types = draw(st.integers(1, max_types))
    items: list[list[int]] = []
    total = 0
    for t in range(n_types):
        if thin:
            a = 1
            kind = draw(st.integers(0, 3))
            if kind == 0:
                b = hi  # as long as the bin
            elif kind == 1:
                b = draw(st.integers(max(1, hi - 3), hi))
            elif kind == 2:
                b = draw(st.integers(1, min(hi, 8)))
            else:
                b = draw(st.integers(1, hi))
        elif cls == "int16_2d":
            a = draw(st.integers(max(1, lo // 3), lo))
            b = draw(st.integers(max(1, hi // 3), hi))
        else:
            a = draw(st.integers(1, lo))
            kind = draw(st.integers(0, 2))
            if kind == 0:
                b = draw(st.integers(1, hi))
            elif kind == 1:
                b = draw(st.integers(max(1, hi - 2), hi))  # near bin size
            else:
                b = draw(st.integers(1, max(1, min(hi, lo))))
        w, h = (a, b) if draw(st.booleans()) else (b, a)
        room = max_items - total - (n_types - t - 1)
        mult = draw(st.integers(1, max(1, min(max_mult, room))))
        if cls == "nitems_edge" and t == 0:
            mult = draw(st.integers(120, 130))
            w, h = min(w, 2), min(h, 2)
        items.append([w, h, mult])
        total += mult
    return {"cls": cls, "W": W, "H": H, "items": items}


@st.composite
def signed_perm(draw: Any, inst_case: dict) -> list[int]:
    """A signed permutation with repetitions for an instance case."""
    base: list[int] = []
    for i, (_w, _h, m) in enumerate(inst_case["items"]):
        base.extend([i + 1] * m)
    perm = draw(st.permutations(base)) if len(base) <= 40 else \
        _cheap_shuffle(draw, base)
    signs = draw(st.lists(st.booleans(), min_size=len(perm),
                          max_size=len(perm)))
    return [(-v if s else v) for v, s in zip(perm, signs)]


def _cheap_shuffle(draw: Any, base: list[int]) -> list[int]:
    """Shuffle long sequences with a few drawn swaps (keeps draws small)."""
    res = list(base)
    n = len(res)
    for _ in range(draw(st.integers(0, 24))):
        i = draw(st.integers(0, n - 1))
        j = draw(st.integers(0, n - 1))
        res[i], res[j] = res[j], res[i]
    if draw(st.booleans()):
        res.reverse()
    return res


@st.composite
def instance_and_perm(draw: Any, **kw: Any) -> dict:
    inst = draw(instances(**kw))
    return {"inst": inst, "x": draw(signed_perm(inst)),
            "enc": draw(st.sampled_from([1, 2])),
            "garbage": draw(st.integers(-3, 100))}


# ----------------------------------------------------------------------------
# guillotine family: instances whose feasible k-bin packing is known
# ----------------------------------------------------------------------------

def _cut(draw: Any, rect: tuple[int, int, int, int], depth: int,
         out: list[tuple[int, int, int, int]], p_stop: int) -> None:
    x0, y0, x1, y1 = rect
    w, h = x1 - x0, y1 - y0
    can_v, can_h = w >= 2, h >= 2
    if depth <= 0 or not (can_v or can_h) or draw(st.integers(0, 9)) < p_stop:
        out.append(rect)
        return
    vertical = can_v and (not can_h or draw(st.booleans()))
    if vertical:
        c = draw(st.integers(1, w - 1))
        if draw(st.integers(0, 3)) == 0:
            c = min(w - 1, max(1, w // 2 + draw(st.integers(-1, 1))))
        _cut(draw, (x0, y0, x0 + c, y1), depth - 1, out, p_stop)
        _cut(draw, (x0 + c, y0, x1, y1), depth - 1, out, p_stop)
    else:
        c = draw(st.integers(1, h - 1))
        if draw(st.integers(0, 3)) == 0:
            c = min(h - 1, max(1, h // 2 + draw(st.integers(-1, 1))))
        _cut(draw, (x0, y0, x1, y0 + c), depth - 1, out, p_stop)
        _cut(draw, (x0, y0 + c, x1, y1), depth - 1, out, p_stop)


@st.composite
def guillotine(draw: Any, max_bins: int = 4, max_dim: int = 40,
               max_depth: int = 4, allow_slack: bool = True,
               merge_types: bool = True) -> dict:
    """Instance + a feasible layout in exactly ``k`` bins.

    Returns {"W","H","k","items":[[w,h,m],...],
             "rows":[[id,bin,x0,y0,x1,y1],...], "perfect": bool}.
    ``rows`` is a feasible packing of the instance using bins 1..k; row order
    is shuffled, so bins are *not* sorted.
    """
    W = draw(st.integers(1, max_dim))
    H = draw(st.integers(1, max_dim))
    k = draw(st.integers(1, max_bins))
    depth = draw(st.integers(0, max_depth))
    p_stop = draw(st.integers(0, 4))
    placed: list[tuple[int, int, int, int, int]] = []  # bin,x0,y0,x1,y1
    perfect = True
    for b in range(1, k + 1):
        rects: list[tuple[int, int, int, int]] = []
        _cut(draw, (0, 0, W, H), depth, rects, p_stop)
        keep: list[tuple[int, int, int, int]] = []
        for r in rects:
            x0, y0, x1, y1 = r
            mode = draw(st.integers(0, 9)) if allow_slack else 9
            if mode == 0 and (len(keep) > 0 or r is not rects[-1]):
                perfect = False
                continue  # dropped: a hole in the bin
            if mode == 1 and x1 - x0 >= 2:
                x1 -= draw(st.integers(1, x1 - x0 - 1))
                perfect = False
            elif mode == 2 and y1 - y0 >= 2:
                y1 -= draw(st.integers(1, y1 - y0 - 1))
                perfect = False
            keep.append((x0, y0, x1, y1))
        if not keep:
            keep.append(rects[0])
        if draw(st.booleans()):  # mirror the whole bin horizontally
            keep = [(W - x1, y0, W - x0, y1) for (x0, y0, x1, y1) in keep]
        if draw(st.booleans()):  # mirror vertically
            keep = [(x0, H - y1, x1, H - y0) for (x0, y0, x1, y1) in keep]
        placed.extend((b, *r) for r in keep)
    # item types: the instance stores each item in a drawn orientation
    types: list[list[int]] = []
    index: dict[tuple[int, int], int] = {}
    rows: list[list[int]] = []
    for (b, x0, y0, x1, y1) in placed:
        w, h = x1 - x0, y1 - y0
        key = (w, h) if w <= h else (h, w)
        tid = index.get(key) if merge_types else None
        if tid is not None and draw(st.integers(0, 4)) == 0:
            tid = None  # same size but separate id is legal, too
        if tid is None:
            a, c = (w, h) if draw(st.booleans()) else (h, w)
            # admission rule holds because the rectangle lies inside the bin
            types.append([a, c, 1])
            tid = len(types)
            index[key] = tid
        else:
            types[tid - 1][2] += 1
        rows.append([tid, b, x0, y0, x1, y1])
    rows = list(draw(st.permutations(rows))) if len(rows) <= 40 else rows
    return {"W": W, "H": H, "k": k, "items": types, "rows": rows,
            "perfect": perfect}


# ----------------------------------------------------------------------------
# building repository objects from cases
# ----------------------------------------------------------------------------

def build_instance(case: dict, name: str = "gen"):
    from moptipyapps.binpacking2d.instance import Instance
    return Instance(name, int(case["W"]), int(case["H"]),
                    [list(map(int, r)) for r in case["items"]])


def build_packing(inst: Any, rows: list[list[int]], n_bins: int | None = None):
    """A Packing object holding ``rows`` verbatim (no validation)."""
    import numpy as np
    from moptipyapps.binpacking2d.packing import Packing
    y = Packing(inst)
    arr = np.array(rows, dtype=np.int64).reshape((-1, 6))
    if arr.shape != y.shape:
        raise ValueError(f"rows shape {arr.shape} vs packing {y.shape}")
    info = np.iinfo(y.dtype)
    if arr.min() < info.min or arr.max() > info.max:
        raise OverflowError("rows do not fit the packing dtype")
    y[:, :] = arr
    y.n_bins = int(arr[:, 1].max()) if n_bins is None else n_bins
    return y


def decode(inst: Any, x: list[int], enc: int, garbage: int = 0,
           encoder: Any = None):
    """Decode ``x`` with encoding ``enc`` (1|2) into a fresh Packing."""
    import numpy as np
    from moptipyapps.binpacking2d.packing import Packing
    if encoder is None:
        encoder = make_encoder(inst, enc)
    y = Packing(inst)
    y.fill(garbage)
    nd = int(inst.n_different_items)
    from moptipy.utils.nputils import int_range_to_dtype
    # same storage type as moptipy's SignedPermutations search space
    xs = np.array(x, dtype=int_range_to_dtype(-nd, nd))
    encoder.decode(xs, y)
    return y


def make_encoder(inst: Any, enc: int):
    if enc == 1:
        from moptipyapps.binpacking2d.encodings.ibl_encoding_1 import (
            ImprovedBottomLeftEncoding1 as E1,
        )
        return E1(inst)
    from moptipyapps.binpacking2d.encodings.ibl_encoding_2 import (
        ImprovedBottomLeftEncoding2 as E2,
    )
    return E2(inst)


def rows_of(y: Any) -> list[list[int]]:
    return [[int(v) for v in row] for row in y]
