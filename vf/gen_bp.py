"""Hypothesis strategies for 2D bin packing: instances, permutations, packings.

All strategies return plain JSON data ("cases"); ``build_instance`` etc. turn a
case into the repository's objects. Instances are built by construction so
that the constructor's admission rule (min(w,h) <= min(W,H), max(w,h) <=
max(W,H)) always holds - no rejection sampling.
"""
from __future__ import annotations

from typing import Any

from hypothesis import strategies as st

# size classes ---------------------------------------------------------------
# name -> how bins are drawn. "thin" classes keep one bin side <= 4 and all
# items at thickness 1 in that direction: Instance.__new__ cuts items into
# squares and loops over q <= min(W,H)/2, so its cost explodes otherwise.
EDGE_POINTS = (127, 32767, 2 ** 31 - 1)
CONSTRUCTOR_WATCHDOG_S = 6.0

CLASSES_ALL = ("tiny", "small", "medium", "int8_edge", "int16_edge_thin",
               "int16_2d", "int32_edge_thin", "huge_thin", "nitems_edge")
CLASSES_CHEAP = ("tiny", "small", "medium", "int8_edge", "nitems_edge")


@st.composite
def _dims_for_class(draw: Any, cls: str) -> tuple[int, int, bool]:
    """Return (W, H, thin)."""
    if cls == "tiny":
        return draw(st.integers(1, 6)), draw(st.integers(1, 6)), False
    if cls == "small":
        return draw(st.integers(1, 40)), draw(st.integers(1, 40)), False
    if cls == "medium":
        return draw(st.integers(5, 60)), draw(st.integers(5, 60)), False
    if cls == "nitems_edge":
        return draw(st.integers(2, 12)), draw(st.integers(2, 12)), False
    if cls == "int8_edge":
        # max_dim + max_size + 1 around 127 <=> max_dim around 63
        a = draw(st.integers(60, 66))
        b = draw(st.integers(1, a))
        return (a, b, False) if draw(st.booleans()) else (b, a, False)
    if cls == "int16_2d":
        a = draw(st.integers(16380, 16386))
        b = draw(st.integers(2000, a))
        return (a, b, False) if draw(st.booleans()) else (b, a, False)
    if cls == "int16_edge_thin":
        a = draw(st.integers(16380, 16386))
    elif cls == "int32_edge_thin":
        a = draw(st.integers(2 ** 30 - 3, 2 ** 30 + 3))
    elif cls == "huge_thin":
        a = draw(st.sampled_from([10 ** 9, 10 ** 9 + 1, 2 ** 31, 2 ** 32 + 1,
                                  10 ** 12 - 1, 10 ** 12]))
    else:
        raise ValueError(cls)
    b = draw(st.integers(1, 4))
    return (a, b, True) if draw(st.booleans()) else (b, a, True)


@st.composite
def instances(draw: Any, classes: tuple[str, ...] = CLASSES_ALL,
              max_types: int = 6, max_mult: int = 4,
              max_items: int = 14) -> dict:
    """An instance case: {"cls", "W", "H", "items": [[w, h, mult], ...]}."""
    cls = draw(st.sampled_from(classes))
    W, H, thin = draw(_dims_for_class(cls))
    lo, hi = min(W, H), max(W, H)
    n_types = draw(st.integers(1, max_types))
    items: list[list[int]] = []
    total = 0
    for t in range(n_types):
        if thin:
            a = 1
            kind = draw(st.integers(0, 3))
            if kind == 0:
                b = hi  # as long as the bin
            elif kind == 1:
                b = draw(st.integers(max(1, hi - 3), hi))
            elif kind == 2:
                b = draw(st.integers(1, min(hi, 8)))
            else:
                b = draw(st.integers(1, hi))
        elif cls == "int16_2d":
            a = draw(st.integers(max(1, lo // 3), lo))
            b = draw(st.integers(max(1, hi // 3), hi))
        else:
            a = draw(st.integers(1, lo))
            kind = draw(st.integers(0, 2))
            if kind == 0:
                b = draw(st.integers(1, hi))
            elif kind == 1:
                b = draw(st.integers(max(1, hi - 2), hi))  # near bin size
            else:
                b = draw(st.integers(1, max(1, min(hi, lo))))
        w, h = (a, b) if draw(st.booleans()) else (b, a)
        room = max_items - total - (n_types - t - 1)
        mult = draw(st.integers(1, max(1, min(max_mult, room))))
        if cls == "nitems_edge" and t == 0:
            # 120..130 copies: n_items + 1 crosses the int8 limit; 250..262
            # copies: repetition counts beyond 256 (uint8 / CPython's cached
            # small integers)
            mult = draw(st.one_of(st.integers(120, 130), st.integers(120, 130),
                                  st.integers(250, 262)))
            w, h = min(w, 2), min(h, 2)
        items.append([w, h, mult])
        total += mult
    case = {"cls": cls, "W": W, "H": H, "items": items}
    # how the caller hands the matrix to the constructor: nested lists, or a
    # numpy array of the narrowest / a wider integer type that holds it
    mx = max(max(r) for r in items)
    fits = [t for t, lim in (("int8", 127), ("uint8", 255), ("int16", 32767),
                             ("uint16", 65535), ("int32", 2 ** 31 - 1),
                             ("int64", 2 ** 63 - 1)) if mx <= lim]
    how = draw(st.sampled_from(["list", "list", "narrow", "any"]))
    if how == "narrow":
        case["matrix_dtype"] = fits[0]
    elif how == "any":
        case["matrix_dtype"] = draw(st.sampled_from(fits))
    return case


@st.composite
def signed_perm(draw: Any, inst_case: dict) -> list[int]:
    """A signed permutation with repetitions for an instance case."""
    base: list[int] = []
    for i, (_w, _h, m) in enumerate(inst_case["items"]):
        base.extend([i + 1] * m)
    perm = draw(st.permutations(base)) if len(base) <= 40 else \
        _cheap_shuffle(draw, base)
    signs = draw(st.lists(st.booleans(), min_size=len(perm),
                          max_size=len(perm)))
    return [(-v if s else v) for v, s in zip(perm, signs)]


def _cheap_shuffle(draw: Any, base: list[int]) -> list[int]:
    """Shuffle long sequences with a few drawn swaps (keeps draws small)."""
    res = list(base)
    n = len(res)
    for _ in range(draw(st.integers(0, 24))):
        i = draw(st.integers(0, n - 1))
        j = draw(st.integers(0, n - 1))
        res[i], res[j] = res[j], res[i]
    if draw(st.booleans()):
        res.reverse()
    return res


@st.composite
def instance_and_perm(draw: Any, **kw: Any) -> dict:
    inst = draw(instances(**kw))
    return {"inst": inst, "x": draw(signed_perm(inst)),
            "enc": draw(st.sampled_from([1, 2])),
            "garbage": draw(st.integers(-3, 100))}


# ----------------------------------------------------------------------------
# guillotine family: instances whose feasible k-bin packing is known
# ----------------------------------------------------------------------------

def _cut(draw: Any, rect: tuple[int, int, int, int], depth: int,
         out: list[tuple[int, int, int, int]], p_stop: int) -> None:
    x0, y0, x1, y1 = rect
    w, h = x1 - x0, y1 - y0
    can_v, can_h = w >= 2, h >= 2
    if depth <= 0 or not (can_v or can_h) or draw(st.integers(0, 9)) < p_stop:
        out.append(rect)
        return
    vertical = can_v and (not can_h or draw(st.booleans()))
    if vertical:
        c = draw(st.integers(1, w - 1))
        if draw(st.integers(0, 3)) == 0:
            c = min(w - 1, max(1, w // 2 + draw(st.integers(-1, 1))))
        _cut(draw, (x0, y0, x0 + c, y1), depth - 1, out, p_stop)
        _cut(draw, (x0 + c, y0, x1, y1), depth - 1, out, p_stop)
    else:
        c = draw(st.integers(1, h - 1))
        if draw(st.integers(0, 3)) == 0:
            c = min(h - 1, max(1, h // 2 + draw(st.integers(-1, 1))))
        _cut(draw, (x0, y0, x1, y0 + c), depth - 1, out, p_stop)
        _cut(draw, (x0, y0 + c, x1, y1), depth - 1, out, p_stop)


@st.composite
def guillotine(draw: Any, max_bins: int = 4, max_dim: int = 40,
               max_depth: int = 4, allow_slack: bool = True,
               merge_types: bool = True) -> dict:
    """Instance + a feasible layout in exactly ``k`` bins.

    Returns {"W","H","k","items":[[w,h,m],...],
             "rows":[[id,bin,x0,y0,x1,y1],...], "perfect": bool}.
    ``rows`` is a feasible packing of the instance using bins 1..k; row order
    is shuffled, so bins are *not* sorted.
    """
    W = draw(st.integers(1, max_dim))
    H = draw(st.integers(1, max_dim))
    k = draw(st.integers(1, max_bins))
    depth = draw(st.integers(0, max_depth))
    p_stop = draw(st.integers(0, 4))
    placed: list[tuple[int, int, int, int, int]] = []  # bin,x0,y0,x1,y1
    perfect = True
    for b in range(1, k + 1):
        rects: list[tuple[int, int, int, int]] = []
        _cut(draw, (0, 0, W, H), depth, rects, p_stop)
        keep: list[tuple[int, int, int, int]] = []
        for r in rects:
            x0, y0, x1, y1 = r
            mode = draw(st.integers(0, 9)) if allow_slack else 9
            if mode == 0 and (len(keep) > 0 or r is not rects[-1]):
                perfect = False
                continue  # dropped: a hole in the bin
            if mode == 1 and x1 - x0 >= 2:
                x1 -= draw(st.integers(1, x1 - x0 - 1))
                perfect = False
            elif mode == 2 and y1 - y0 >= 2:
                y1 -= draw(st.integers(1, y1 - y0 - 1))
                perfect = False
            keep.append((x0, y0, x1, y1))
        if not keep:
            keep.append(rects[0])
        if draw(st.booleans()):  # mirror the whole bin horizontally
            keep = [(W - x1, y0, W - x0, y1) for (x0, y0, x1, y1) in keep]
        if draw(st.booleans()):  # mirror vertically
            keep = [(x0, H - y1, x1, H - y0) for (x0, y0, x1, y1) in keep]
        placed.extend((b, *r) for r in keep)
    # item types: the instance stores each item in a drawn orientation
    types: list[list[int]] = []
    index: dict[tuple[int, int], int] = {}
    rows: list[list[int]] = []
    for (b, x0, y0, x1, y1) in placed:
        w, h = x1 - x0, y1 - y0
        key = (w, h) if w <= h else (h, w)
        tid = index.get(key) if merge_types else None
        if tid is not None and draw(st.integers(0, 4)) == 0:
            tid = None  # same size but separate id is legal, too
        if tid is None:
            a, c = (w, h) if draw(st.booleans()) else (h, w)
            # admission rule holds because the rectangle lies inside the bin
            types.append([a, c, 1])
            tid = len(types)
            index[key] = tid
        else:
            types[tid - 1][2] += 1
        rows.append([tid, b, x0, y0, x1, y1])
    rows = list(draw(st.permutations(rows))) if len(rows) <= 40 else rows
    return {"W": W, "H": H, "k": k, "items": types, "rows": rows,
            "perfect": perfect}


# ----------------------------------------------------------------------------
# building repository objects from cases
# ----------------------------------------------------------------------------

def build_instance(case: dict, name: str = "gen"):
    """Instance through the public constructor.

    On the unchanged tree the constructor needs milliseconds for every
    generated case (the huge classes are unit-thin for that reason). A changed
    constructor whose lower-bound loops run over the long bin side would never
    return for 10^9..10^12 bins: those cases are built under a watchdog and a
    hit (CaseTimeout) makes the case inconclusive, so that the search goes on.
    """
    from moptipyapps.binpacking2d.instance import Instance
    from vf.core import time_limit
    W, H = int(case["W"]), int(case["H"])
    rows: Any = [list(map(int, r)) for r in case["items"]]
    if case.get("matrix_dtype"):
        import numpy as np
        rows = np.array(rows, dtype=np.dtype(case["matrix_dtype"]))
    if max(W, H) > 100_000:
        with time_limit(CONSTRUCTOR_WATCHDOG_S):
            return Instance(name, W, H, rows)
    return Instance(name, W, H, rows)


def build_packing(inst: Any, rows: list[list[int]], n_bins: int | None = None):
    """A Packing object holding ``rows`` verbatim (no validation)."""
    import numpy as np
    from moptipyapps.binpacking2d.packing import Packing
    y = Packing(inst)
    arr = np.array(rows, dtype=np.int64).reshape((-1, 6))
    if arr.shape != y.shape:
        raise ValueError(f"rows shape {arr.shape} vs packing {y.shape}")
    info = np.iinfo(y.dtype)
    if arr.min() < info.min or arr.max() > info.max:
        raise OverflowError("rows do not fit the packing dtype")
    y[:, :] = arr
    y.n_bins = int(arr[:, 1].max()) if n_bins is None else n_bins
    return y


def decode(inst: Any, x: list[int], enc: int, garbage: int = 0,
           encoder: Any = None):
    """Decode ``x`` with encoding ``enc`` (1|2) into a fresh Packing."""
    import numpy as np
    from moptipyapps.binpacking2d.packing import Packing
    if encoder is None:
        encoder = make_encoder(inst, enc)
    y = Packing(inst)
    y.fill(garbage)
    nd = int(inst.n_different_items)
    from moptipy.utils.nputils import int_range_to_dtype
    # same storage type as moptipy's SignedPermutations search space
    xs = np.array(x, dtype=int_range_to_dtype(-nd, nd))
    encoder.decode(xs, y)
    return y


def make_encoder(inst: Any, enc: int):
    if enc == 1:
        from moptipyapps.binpacking2d.encodings.ibl_encoding_1 import (
            ImprovedBottomLeftEncoding1 as E1,
        )
        return E1(inst)
    from moptipyapps.binpacking2d.encodings.ibl_encoding_2 import (
        ImprovedBottomLeftEncoding2 as E2,
    )
    return E2(inst)


def rows_of(y: Any) -> list[list[int]]:
    return [[int(v) for v in row] for row in y]


# ============================================================================
# additions for C02 / C03 / C04 / C14 (existing strategies above are unchanged)
# ============================================================================

def dtype_limits(inst_case: dict) -> tuple[int, int]:
    """(lo, hi) of the storage type that the instance (and its packings) use."""
    from vf import oracle_bp
    name = oracle_bp.expected_dtype(inst_case["W"], inst_case["H"],
                                    inst_case["items"])
    bits = int(name[3:])
    return -(2 ** (bits - 1)), 2 ** (bits - 1) - 1


def own_bin_rows(inst_case: dict) -> list[list[int]]:
    """The worst-case feasible layout: every item alone in its own bin."""
    W, H = inst_case["W"], inst_case["H"]
    rows: list[list[int]] = []
    for i, (w, h, m) in enumerate(inst_case["items"]):
        if w > W or h > H:
            w, h = h, w
        for _ in range(m):
            rows.append([i + 1, len(rows) + 1, 0, 0, w, h])
    return rows


# -- coordinate-rich instances for the bottom-left model (C14) ----------------

@st.composite
def instances_rich(draw: Any, max_items: int = 14, max_dim: int = 60) -> dict:
    """Bins 5..max_dim, 3..max_items items drawn from small palettes of widths
    and heights, so that equal heights (support / blocker situations of the
    bottom-left rule) are frequent."""
    W = draw(st.integers(5, max_dim))
    H = draw(st.integers(5, max_dim))
    pal_w = draw(st.lists(st.integers(1, max(1, (2 * W) // 3)), min_size=1,
                          max_size=4))
    pal_h = draw(st.lists(st.integers(1, max(1, (2 * H) // 3)), min_size=1,
                          max_size=3))
    n_types = draw(st.integers(2, max(2, min(8, max_items // 2))))
    items: list[list[int]] = []
    total = 0
    for t in range(n_types):
        w = draw(st.sampled_from(pal_w)) if draw(st.integers(0, 4)) else \
            draw(st.integers(1, W))
        h = draw(st.sampled_from(pal_h)) if draw(st.integers(0, 4)) else \
            draw(st.integers(1, H))
        room = max_items - total - (n_types - t - 1)
        mult = draw(st.integers(1, max(1, min(6, room))))
        items.append([w, h, mult])
        total += mult
    return {"cls": "rich", "W": W, "H": H, "items": items}


@st.composite
def decode_case(draw: Any, rich_share: int = 5, rich_items: int = 24,
                **kw: Any) -> dict:
    """Like :func:`instance_and_perm`; ``rich_share`` of 10 instances come
    from :func:`instances_rich`, the others from :func:`instances`."""
    if draw(st.integers(0, 9)) < rich_share:
        inst = draw(instances_rich(max_items=rich_items))
    else:
        inst = draw(instances(**kw))
    x = draw(signed_perm(inst))
    # rotated by the instance so that both encodings are equally frequent
    enc = 1 + (draw(st.integers(0, 1)) + inst["W"] + len(x)) % 2
    return {"inst": inst, "x": x, "enc": enc,
            "garbage": draw(st.integers(-3, 100))}


# -- feasible packings of both kinds (C02, C04) -------------------------------

def _relabel(draw: Any, rows: list[list[int]]) -> list[list[int]]:
    """Rename the bins by a drawn permutation of 1..k."""
    ids = sorted({r[1] for r in rows})
    new = list(draw(st.permutations(ids))) if len(ids) <= 40 else ids[::-1]
    m = dict(zip(ids, new))
    return [[r[0], m[r[1]], *r[2:]] for r in rows]


def _shuffle_rows(draw: Any, rows: list[list[int]]) -> list[list[int]]:
    if len(rows) <= 40:
        return [list(r) for r in draw(st.permutations(rows))]
    idx = _cheap_shuffle(draw, list(range(len(rows))))
    return [list(rows[i]) for i in idx]


def _sparse_last(draw: Any, rows: list[list[int]]) -> list[list[int]]:
    """Move one item out of a bin holding >= 2 items into a new last bin (to
    that bin's bottom-left corner): k+1 bins, the last one sparse."""
    per: dict[int, int] = {}
    for r in rows:
        per[r[1]] = per.get(r[1], 0) + 1
    cand = [i for i, r in enumerate(rows) if per[r[1]] >= 2]
    if not cand:
        return [list(r) for r in rows]
    i = draw(st.sampled_from(cand))
    k = max(per)
    res = [list(r) for r in rows]
    iid, _b, x0, y0, x1, y1 = res[i]
    res[i] = [iid, k + 1, 0, 0, x1 - x0, y1 - y0]
    return res


@st.composite
def layout_variant(draw: Any, rows: list[list[int]]) -> dict:
    """A feasible re-arrangement of a feasible layout that no decoder yields:
    rows shuffled, bins renamed, optionally a sparse extra last bin."""
    how = []
    res = [list(r) for r in rows]
    if draw(st.booleans()):
        res = _sparse_last(draw, res)
        how.append("sparse_last")
    if draw(st.integers(0, 3)) > 0:
        res = _relabel(draw, res)
        how.append("relabel")
    if draw(st.integers(0, 3)) > 0:
        res = _shuffle_rows(draw, res)
        how.append("shuffle")
    return {"kind": "rows", "how": "+".join(how) or "copy", "rows": res}


@st.composite
def objective_case_decoded(draw: Any, **kw: Any) -> dict:
    """C02: one instance of any size class with several feasible packings:
    decodings by both encodings, re-arranged model layouts, one item per
    bin."""
    from vf import oracle_bp
    inst = draw(instances(**kw))
    x1 = draw(signed_perm(inst))
    x2 = draw(signed_perm(inst))
    packs: list[dict] = [
        {"kind": "decode", "enc": draw(st.sampled_from([1, 2])), "x": x1},
        {"kind": "decode", "enc": draw(st.sampled_from([1, 2])), "x": x2}]
    base, _k, _s = oracle_bp.model_decode(
        inst["W"], inst["H"], inst["items"], x1, draw(st.sampled_from([1, 2])))
    packs.append(draw(layout_variant(base)))
    packs.append({"kind": "rows", "how": "own_bin",
                  "rows": own_bin_rows(inst)})
    order = draw(st.permutations(range(len(packs))))
    return {"inst": inst, "packs": [packs[i] for i in order]}


@st.composite
def objective_case_guillotine(draw: Any, **kw: Any) -> dict:
    """C02: a guillotine instance with its known k-bin layout, re-arranged
    variants of it, decodings and the one-item-per-bin layout."""
    g = draw(guillotine(**kw))
    inst = {"cls": "guillotine", "W": g["W"], "H": g["H"],
            "items": g["items"]}
    packs: list[dict] = [
        {"kind": "rows", "how": "guillotine", "rows": g["rows"]},
        draw(layout_variant(g["rows"])),
        {"kind": "decode", "enc": draw(st.sampled_from([1, 2])),
         "x": draw(signed_perm(inst))},
        {"kind": "rows", "how": "own_bin", "rows": own_bin_rows(inst)}]
    order = draw(st.permutations(range(len(packs))))
    return {"inst": inst, "k_known": g["k"],
            "packs": [packs[i] for i in order]}


# -- guillotine instances with shape classes for the lower bound (C03) --------

SHAPES_C03 = ("any", "square", "thin_wide", "thin_tall", "flat", "big")


@st.composite
def guillotine_shaped(draw: Any, max_bins: int = 5, max_dim: int = 40,
                      big_dim: int = 100) -> dict:
    """Like :func:`guillotine` but with drawn bin shape classes (squares,
    thin strips in both orientations, non-square in both orientations), a
    drawn share of cuts next to the middle of the piece (items just above /
    below half the bin), a drawn share of square pieces, and drawn data for
    the metamorphic variants (item rotations, row order, splitting of
    multiplicities)."""
    shape = draw(st.sampled_from(SHAPES_C03))
    if shape == "square":
        W = H = draw(st.integers(1, max_dim))
    elif shape == "thin_wide":
        W, H = draw(st.integers(4, big_dim)), draw(st.integers(1, 3))
    elif shape == "thin_tall":
        W, H = draw(st.integers(1, 3)), draw(st.integers(4, big_dim))
    elif shape == "flat":
        a = draw(st.integers(2, max_dim))
        b = draw(st.integers(1, max(1, a // 2)))
        W, H = (a, b) if draw(st.booleans()) else (b, a)
    elif shape == "big":
        W, H = draw(st.integers(20, big_dim)), draw(st.integers(20, big_dim))
    else:
        W, H = draw(st.integers(1, max_dim)), draw(st.integers(1, max_dim))
    k = draw(st.integers(1, max_bins))
    depth = draw(st.integers(0, 4))
    p_stop = draw(st.integers(0, 4))
    p_half = draw(st.sampled_from([0, 0, 3, 7, 10]))
    slack = draw(st.sampled_from([0, 1, 2, 3, 5]))  # tenths of pieces touched
    small = draw(st.booleans())  # shrink by 1..2 only (items stay > half)
    placed: list[tuple[int, int, int, int, int]] = []
    perfect = True

    def cut(rect: tuple[int, int, int, int], d: int,
            out: list[tuple[int, int, int, int]]) -> None:
        x0, y0, x1, y1 = rect
        w, h = x1 - x0, y1 - y0
        can_v, can_h = w >= 2, h >= 2
        if d <= 0 or not (can_v or can_h) or \
                draw(st.integers(0, 9)) < p_stop:
            out.append(rect)
            return
        vertical = can_v and (not can_h or draw(st.booleans()))
        size = w if vertical else h
        if draw(st.integers(0, 9)) < p_half:
            c = min(size - 1, max(1, size // 2 + draw(st.integers(-1, 1))))
        else:
            c = draw(st.integers(1, size - 1))
        if vertical:
            cut((x0, y0, x0 + c, y1), d - 1, out)
            cut((x0 + c, y0, x1, y1), d - 1, out)
        else:
            cut((x0, y0, x1, y0 + c), d - 1, out)
            cut((x0, y0 + c, x1, y1), d - 1, out)

    for b in range(1, k + 1):
        rects: list[tuple[int, int, int, int]] = []
        cut((0, 0, W, H), depth, rects)
        keep: list[tuple[int, int, int, int]] = []
        for r in rects:
            x0, y0, x1, y1 = r
            if draw(st.integers(0, 9)) < slack:
                mode = draw(st.integers(0, 2))
                if mode == 0 and (keep or r is not rects[-1]):
                    perfect = False
                    continue
                if mode == 1 and x1 - x0 >= 2:
                    x1 -= draw(st.integers(
                        1, min(2, x1 - x0 - 1) if small else x1 - x0 - 1))
                    perfect = False
                elif mode == 2 and y1 - y0 >= 2:
                    y1 -= draw(st.integers(
                        1, min(2, y1 - y0 - 1) if small else y1 - y0 - 1))
                    perfect = False
            keep.append((x0, y0, x1, y1))
        if not keep:
            keep.append(rects[0])
        placed.extend((b, *r) for r in keep)
    types: list[list[int]] = []
    index: dict[tuple[int, int], int] = {}
    rows: list[list[int]] = []
    for (b, x0, y0, x1, y1) in placed:
        w, h = x1 - x0, y1 - y0
        key = (w, h) if w <= h else (h, w)
        tid = index.get(key)
        if tid is None:
            a, c = (w, h) if draw(st.booleans()) else (h, w)
            types.append([a, c, 1])
            tid = len(types)
            index[key] = tid
        else:
            types[tid - 1][2] += 1
        rows.append([tid, b, x0, y0, x1, y1])
    nt = len(types)
    meta = {
        "rot": draw(st.lists(st.booleans(), min_size=nt, max_size=nt)),
        "order": list(draw(st.permutations(range(nt)))) if nt <= 40
        else list(range(nt))[::-1],
        "split": draw(st.lists(st.booleans(), min_size=nt, max_size=nt)),
    }
    return {"shape": shape, "W": W, "H": H, "k": k, "items": types,
            "rows": rows, "perfect": perfect, "meta": meta}


# -- corruption catalogue for the validator (C04) -----------------------------

MUTATIONS = (
    "id_other", "id_invalid", "swap_ids", "shift", "resize_one",
    "resize_both", "wrong_partner", "outside", "overlap", "to_other_bin",
    "to_new_bin", "bin_nonpositive", "bin_huge", "bin_gap", "n_bins",
    "n_bins_type", "dtype", "shape", "foreign", "plain", "swap_rows",
    "turn_in_place")


def _mutate(draw: Any, inst: dict, st8: dict, kind: str) -> None:
    """Apply one corruption of the catalogue to ``st8`` (in place).

    ``st8`` = {"rows", "n_bins", "dtype", "foreign", "plain"}. All values
    written stay inside the storage type of the instance (``lo..hi``), so the
    corrupted matrix is representable as a packing array. Nothing here decides
    whether the result is infeasible - the oracle does."""
    W, H, items = inst["W"], inst["H"], inst["items"]
    rows = st8["rows"]
    lo, hi = dtype_limits(inst)

    def clamp(v: int) -> int:
        return max(lo, min(hi, v))

    proper = isinstance(rows, list) and rows and all(
        isinstance(r, list) and len(r) == 6 for r in rows)
    if not proper:  # after a shape corruption only container-level changes
        if kind not in ("n_bins", "n_bins_type", "dtype", "foreign", "plain"):
            return
    n = len(rows) if proper else 0
    i = draw(st.integers(0, n - 1)) if n else 0
    k = max((r[1] for r in rows), default=1) if proper else 1
    if kind == "id_other":
        cur = rows[i][0]
        twins = [t + 1 for t, it in enumerate(items)
                 if t + 1 != cur and 1 <= cur <= len(items)
                 and sorted(it[:2]) == sorted(items[cur - 1][:2])]
        if twins and draw(st.booleans()):
            # same size, other id: only the multiplicities become wrong
            rows[i][0] = draw(st.sampled_from(twins))
        elif len(items) > 1:
            other = draw(st.integers(1, len(items) - 1))
            rows[i][0] = (rows[i][0] - 1 + other) % len(items) + 1
    elif kind == "id_invalid":
        rows[i][0] = clamp(draw(st.sampled_from(
            [0, -1, len(items) + 1, len(items) + 2, hi, lo, -rows[i][0]])))
    elif kind == "swap_ids":
        j = draw(st.integers(0, n - 1))
        rows[i][0], rows[j][0] = rows[j][0], rows[i][0]
    elif kind == "shift":
        dx = draw(st.integers(-3, 3))
        dy = draw(st.integers(-3, 3))
        if draw(st.integers(0, 5)) == 0:
            dx = draw(st.sampled_from([-W, W, -1, 1]))
        r = rows[i]
        rows[i] = [r[0], r[1], clamp(r[2] + dx), clamp(r[3] + dy),
                   clamp(r[4] + dx), clamp(r[5] + dy)]
    elif kind == "resize_one":
        col = draw(st.sampled_from([2, 3, 4, 5]))
        d = draw(st.sampled_from([-3, -2, -1, 1, 2, 3]))
        if draw(st.integers(0, 3)) == 0:  # collapse to zero / negative size
            r = rows[i]
            d = (r[4] - r[2]) * (1 if col == 2 else -1) if col in (2, 4) \
                else (r[5] - r[3]) * (1 if col == 3 else -1)
            d += draw(st.sampled_from([0, 0, 1, -1]))
        rows[i][col] = clamp(rows[i][col] + d)
    elif kind == "resize_both":
        d = draw(st.sampled_from([-2, -1, 1, 2]))
        e = draw(st.sampled_from([-2, -1, 1, 2]))
        rows[i][4] = clamp(rows[i][4] + d)
        rows[i][5] = clamp(rows[i][5] + e)
    elif kind == "wrong_partner":
        # one side from this item, the other side from another item type
        j = draw(st.integers(0, len(items) - 1))
        own = items[rows[i][0] - 1] if 1 <= rows[i][0] <= len(items) \
            else items[0]
        a = draw(st.sampled_from([own[0], own[1]]))
        b = draw(st.sampled_from([items[j][0], items[j][1]]))
        if draw(st.booleans()):
            a, b = b, a
        rows[i][4] = clamp(rows[i][2] + a)
        rows[i][5] = clamp(rows[i][3] + b)
    elif kind == "outside":
        r = rows[i]
        w, h = r[4] - r[2], r[5] - r[3]
        side = draw(st.integers(0, 3))
        off = draw(st.sampled_from([1, 1, 2, w, h]))
        if side == 0:
            x0 = -off
            rows[i] = [r[0], r[1], clamp(x0), r[3], clamp(x0 + w), r[5]]
        elif side == 1:
            y0 = -off
            rows[i] = [r[0], r[1], r[2], clamp(y0), r[4], clamp(y0 + h)]
        elif side == 2:
            x1 = W + off
            rows[i] = [r[0], r[1], clamp(x1 - w), r[3], clamp(x1), r[5]]
        else:
            y1 = H + off
            rows[i] = [r[0], r[1], r[2], clamp(y1 - h), r[4], clamp(y1)]
    elif kind == "overlap":
        j = draw(st.integers(0, n - 1))
        r, o = rows[i], rows[j]
        w, h = r[4] - r[2], r[5] - r[3]
        # put row i so that it shares a cell with row j (same bin); keep it
        # inside the bin when possible so that only the overlap clause fires
        x0 = min(max(0, o[2] - draw(st.integers(0, max(0, w - 1)))),
                 max(0, W - w))
        y0 = min(max(0, o[3] - draw(st.integers(0, max(0, h - 1)))),
                 max(0, H - h))
        rows[i] = [r[0], o[1], clamp(x0), clamp(y0), clamp(x0 + w),
                   clamp(y0 + h)]
    elif kind == "to_other_bin":
        rows[i][1] = draw(st.integers(1, max(1, k)))
    elif kind == "to_new_bin":
        rows[i][1] = clamp(k + 1)
        if draw(st.booleans()):  # consistent bin count: may stay feasible
            if type(st8["n_bins"]) is int:
                st8["n_bins"] = k + 1
        if draw(st.booleans()):
            r = rows[i]
            rows[i] = [r[0], r[1], 0, 0, r[4] - r[2], r[5] - r[3]]
    elif kind == "bin_nonpositive":
        rows[i][1] = clamp(draw(st.sampled_from([0, -1, -k, lo])))
    elif kind == "bin_huge":
        rows[i][1] = clamp(draw(st.sampled_from([n, n + 1, n + 2, hi])))
        if draw(st.booleans()) and type(st8["n_bins"]) is int:
            st8["n_bins"] = len({r[1] for r in rows})
    elif kind == "bin_gap":
        first = draw(st.integers(1, max(1, k)))
        step = draw(st.sampled_from([1, 1, 2]))
        for r in rows:
            if r[1] >= first:
                r[1] = clamp(r[1] + step)
        if draw(st.booleans()) and type(st8["n_bins"]) is int:
            st8["n_bins"] = max(r[1] for r in rows)
    elif kind == "n_bins":
        st8["n_bins"] = draw(st.sampled_from([k - 1, k + 1, 0, -1, n, n + 1]))
    elif kind == "n_bins_type":
        st8["n_bins"] = draw(st.sampled_from(
            [float(k), None, str(k), [k], {"np": "int64", "v": k}]))
    elif kind == "dtype":
        st8["dtype"] = draw(st.sampled_from(
            ["int8", "int16", "int32", "int64", "uint8", "uint64",
             "float64"]))
    elif kind == "shape":
        how = draw(st.sampled_from(["drop_row", "add_row", "drop_col",
                                    "add_col", "flat", "empty", "3d"]))
        if how == "drop_row":
            del rows[i]
        elif how == "add_row":
            rows.append(list(rows[i]))
        elif how == "drop_col":
            st8["rows"] = [r[:5] for r in rows]
        elif how == "add_col":
            st8["rows"] = [r + [1] for r in rows]
        elif how == "flat":
            st8["rows"] = [v for r in rows for v in r]
        elif how == "empty":
            st8["rows"] = []
        else:
            st8["rows"] = [[r] for r in rows]
    elif kind == "foreign":
        st8["foreign"] = True
    elif kind == "plain":
        st8["plain"] = True
    elif kind == "swap_rows":
        j = draw(st.integers(0, n - 1))
        rows[i], rows[j] = rows[j], rows[i]
    elif kind == "turn_in_place":
        r = rows[i]
        w, h = r[4] - r[2], r[5] - r[3]
        rows[i] = [r[0], r[1], r[2], r[3], clamp(r[2] + h), clamp(r[3] + w)]
    else:
        raise ValueError(kind)


@st.composite
def feasible_packing(draw: Any, classes: tuple[str, ...] = CLASSES_ALL,
                     guillotine_share: int = 4, **kw: Any) -> dict:
    """{"inst", "rows", "origin"}: a feasible packing of either kind - the
    layout the documented decoding rule yields (origin ``model1``/``model2``),
    optionally re-arranged, the one-item-per-bin layout, or a guillotine
    layout (rows unsorted, bins mirrored)."""
    from vf import oracle_bp
    if draw(st.integers(0, 9)) < guillotine_share:
        g = draw(guillotine(max_bins=kw.get("max_bins", 4)))
        inst = {"cls": "guillotine", "W": g["W"], "H": g["H"],
                "items": g["items"]}
        rows, origin = [list(r) for r in g["rows"]], "guillotine"
    else:
        inst = draw(instances(classes=classes,
                              max_items=kw.get("max_items", 14),
                              max_types=kw.get("max_types", 6)))
        mode = draw(st.integers(0, 9))
        if mode == 0:
            rows, origin = own_bin_rows(inst), "own_bin"
        else:
            enc = draw(st.sampled_from([1, 2]))
            rows, _k, _s = oracle_bp.model_decode(
                inst["W"], inst["H"], inst["items"],
                draw(signed_perm(inst)), enc)
            origin = f"model{enc}"
    if draw(st.integers(0, 2)) == 0:
        v = draw(layout_variant(rows))
        if v["how"] != "copy":
            rows, origin = v["rows"], origin + "+" + v["how"]
    return {"inst": inst, "rows": rows, "origin": origin}


@st.composite
def validation_case(draw: Any, mutate: bool = True, **kw: Any) -> dict:
    """C04: {"inst", "rows", "n_bins", "dtype", "foreign", "plain", "origin",
    "muts"}: a feasible packing, corrupted by 1..3 catalogue entries when
    ``mutate``. ``rows``/``n_bins`` are the *final* content handed to the
    validator; ``muts`` only names what was applied (for the labels)."""
    from vf import oracle_bp
    base = draw(feasible_packing(**kw))
    inst = base["inst"]
    st8 = {"rows": [list(r) for r in base["rows"]],
           "n_bins": max(r[1] for r in base["rows"]),
           "dtype": oracle_bp.expected_dtype(inst["W"], inst["H"],
                                             inst["items"]),
           "foreign": False, "plain": False}
    muts: list[str] = []
    if mutate:
        for _ in range(draw(st.sampled_from([1, 1, 1, 2, 3]))):
            # Hypothesis favours small draws; rotating the catalogue by
            # a function of the (drawn) instance evens the kinds out
            kind = MUTATIONS[(draw(st.integers(0, len(MUTATIONS) - 1))
                              + inst["W"] + 3 * inst["H"]
                              + 5 * len(base["rows"])) % len(MUTATIONS)]
            _mutate(draw, inst, st8, kind)
            muts.append(kind)
    return {"inst": inst, "rows": st8["rows"], "n_bins": st8["n_bins"],
            "dtype": st8["dtype"], "foreign": st8["foreign"],
            "plain": st8["plain"], "origin": base["origin"], "muts": muts}
