"""Hypothesis strategies that are not bin-packing layouts.

* C20: object sequences, distance functions, permutation pairs;
* C17: templates and real vectors for the instance decoder;
* C19: names, game plans, orderings and record tables.

All strategies return plain JSON data. The ``make_*`` helpers turn such data
into Python callables / repository objects (repository imports are local).
"""
from __future__ import annotations

import math
import random
from typing import Any, Callable

from hypothesis import strategies as st

from vf import gen_bp

# ----------------------------------------------------------------------------
# C20: one-dimensional ordering
# ----------------------------------------------------------------------------

DIST_KINDS = ("manhattan", "coord0", "table", "manhattan_f", "coord0_f",
              "table_f")
FLOW_POWERS = (1, 2, 3, 0.5, 1.5)
# tiny scales: positive distances far below any "is zero" tolerance
FLOAT_SCALES = (0.5, 0.1, 1.0 / 3.0, 2.5, 1e-12, 1e-30, 1e-300)


@st.composite
def order1d_cases(draw: Any, max_len: int = 12) -> dict:
    """{"objs": [[a, b], ...], "dist": {...}, "power", "horizon", ...}.

    Objects are pairs of small integers, so duplicates and ties are frequent.
    The object handed to the package is ``(position, a, b)``: the position is
    ignored by every distance function and only used to audit the mapping.
    """
    # (sampled_from: Hypothesis prefers the first entries, st.integers the
    # lower bound - a quarter of all sequences had length 1)
    n = draw(st.sampled_from([v for v in (6, 5, 7, 4, 8, 3, 9, 2, 10, 12, 11,
                                          1, 13, 14, 15, 16) if v <= max_len]))
    vmax = draw(st.sampled_from([1, 2, 3, 3, 5, 5, 9, 9, 0]))
    if draw(st.integers(0, 3)) == 0:
        # a line of distinct points: many rank ties (equidistant neighbours)
        start = draw(st.integers(0, 3))
        step = draw(st.integers(1, 3))
        objs = [[start + step * i, 0] for i in range(n)]
        objs = list(draw(st.permutations(objs)))
        if draw(st.booleans()) and n > 2:
            objs[draw(st.integers(0, n - 1))] = list(objs[0])
    elif draw(st.booleans()):
        objs = [[draw(st.integers(0, vmax)), draw(st.integers(0, vmax))]
                for _ in range(n)]
    else:
        # bulk content from a Hypothesis-drawn seed (the case stores the
        # resulting objects, so the replay does not depend on the seed)
        rnd = random.Random(draw(st.integers(0, 2 ** 32 - 1)))
        objs = [[rnd.randint(0, vmax), rnd.randint(0, vmax)]
                for _ in range(n)]
    kind = draw(st.sampled_from(DIST_KINDS))
    dist: dict[str, Any] = {"kind": kind}
    if kind.endswith("_f"):
        dist["scale"] = draw(st.sampled_from(FLOAT_SCALES))
    if kind.startswith("table"):
        m = max(o[0] for o in objs) + 1
        tab = [[0] * m for _ in range(m)]
        hi = draw(st.sampled_from([1, 2, 3, 6]))
        for i in range(m):
            for j in range(i + 1, m):
                tab[i][j] = tab[j][i] = draw(st.integers(0, hi))
        dist["table"] = tab
    return {"objs": objs, "dist": dist,
            "power": draw(st.sampled_from(FLOW_POWERS)),
            "horizon": draw(st.integers(1, n + 2)),
            "tags": draw(st.sampled_from(["str", "tuple"])),
            "container": draw(st.sampled_from(["list", "tuple", "iter"]))}


def make_distance(dist: dict) -> Callable[[Any, Any], Any]:
    """Distance over objects ``(position, a, b)``; exactly symmetric."""
    kind = dist["kind"]
    scale = dist.get("scale")
    base = kind[:-2] if kind.endswith("_f") else kind
    if base == "manhattan":
        def f(x: Any, y: Any) -> Any:
            return abs(x[1] - y[1]) + abs(x[2] - y[2])
    elif base == "coord0":
        def f(x: Any, y: Any) -> Any:
            return abs(x[1] - y[1])
    elif base == "table":
        tab = dist["table"]

        def f(x: Any, y: Any) -> Any:
            return tab[x[1]][y[1]]
    else:
        raise ValueError(kind)
    if scale is None:
        return f
    return lambda x, y: f(x, y) * scale


@st.composite
def perm_pairs(draw: Any, max_len: int = 40) -> dict:
    """{"p": [...], "q": [...], "dtype": "int8"|"int64"|...}: random pairs."""
    n = draw(st.one_of(st.integers(1, max_len), st.integers(8, max_len)))
    base = list(range(n))
    p = list(draw(st.permutations(base)))
    mode = draw(st.sampled_from([0, 0, 0, 1, 2, 3]))
    if mode == 0:
        rnd = random.Random(draw(st.integers(0, 2 ** 32 - 1)))
        q = list(base)
        rnd.shuffle(q)
        if draw(st.booleans()):
            p = list(base)
            rnd.shuffle(p)
    elif mode == 1:
        q = list(p)  # equal or a few swaps away
        for _ in range(draw(st.integers(0, 5))):
            i = draw(st.integers(0, n - 1))
            j = draw(st.integers(0, n - 1))
            q[i], q[j] = q[j], q[i]
    elif mode == 2:
        k = draw(st.integers(0, n - 1))  # rotation: one long cycle
        q = p[k:] + p[:k]
    else:
        q = list(reversed(p))
    return {"p": p, "q": q,
            "dtype": draw(st.sampled_from(["int8", "int16", "int64",
                                           "uint8", "space"]))}


# ----------------------------------------------------------------------------
# C17: templates and vectors for the instance decoder
# ----------------------------------------------------------------------------

NEXT_BELOW_1 = math.nextafter(1.0, 0.0)
NEXT_ABOVE_0 = math.nextafter(0.0, 1.0)
SPECIAL_REALS = (-1.0, -0.0, 0.0, 1.0, NEXT_BELOW_1, -NEXT_BELOW_1,
                 NEXT_ABOVE_0, -NEXT_ABOVE_0, 0.5, -0.5)
BIG_CUTTERS = (NEXT_BELOW_1, -NEXT_BELOW_1, 0.999, -0.999, 0.99, -0.99,
               0.9, -0.9, 0.75, -0.75)


def unit_reals() -> Any:
    return st.one_of(
        st.sampled_from(SPECIAL_REALS),
        st.floats(min_value=-1.0, max_value=1.0, allow_nan=False,
                  allow_infinity=False))


def slack_pair() -> Any:
    """[selector, cutter] with a large |cutter| in most draws."""
    return st.tuples(
        unit_reals(),
        st.one_of(st.sampled_from(BIG_CUTTERS), st.sampled_from(BIG_CUTTERS),
                  unit_reals())).map(list)


def _orient(case: dict) -> dict:
    """Store every item in an orientation that fits the bin (the template
    admission rule of InstanceSpace); the multiset of items is unchanged."""
    W, H = case["W"], case["H"]
    items = []
    for w, h, m in case["items"]:
        if w > W or h > H:
            w, h = h, w
        items.append([w, h, m])
    res = dict(case)
    res["items"] = items
    return res


#: shipped instances with at most 61 items that are not of the clCC_NNN_II
#: family (n_items: a01 24, a02 38, a03 17, a04 16, a06 17, a07 58, a08 16,
#: a10 44, a12 44, a22 24, a26 61, a30 39, a34 46, a36 52, a39 22, a42 13,
#: a43 22, asqasNN NN, beng01 20, beng02 40, beng03 60, beng06 40)
SMALL_SHIPPED = (
    "a01", "a02", "a03", "a04", "a06", "a07", "a08", "a10", "a12", "a22",
    "a26", "a30", "a34", "a36", "a39", "a42", "a43", "asqas03", "asqas08",
    "asqas20", "asqas34", "beng01", "beng02", "beng03", "beng06")


def shipped_names(max_cl_items: int = 40) -> list[str]:
    """Names of the smaller shipped instances (templates for C17)."""
    from moptipyapps.binpacking2d.instance import Instance
    have = set(Instance.list_resources())
    names = [nm for nm in SMALL_SHIPPED if nm in have]
    for nm in sorted(have):
        if nm.startswith("cl") and int(nm.split("_")[1]) <= max_cl_items:
            names.append(nm)
    return sorted(names)


#: (no "huge_thin": a 10^9 x 4 bin is admitted by InstanceSpace, but cutting
#: it gives items like 10^9 x 3, which Instance.__new__ cuts into 3*10^8
#: squares - more than 8 GB; "int32_edge_thin" bins exceed 10^9 and are
#: always rejected, which exercises the clean-rejection path cheaply)
TEMPLATE_CLASSES = ("tiny", "small", "medium", "int8_edge", "small",
                    "medium", "nitems_edge", "int16_edge_thin",
                    "int32_edge_thin")


@st.composite
def decoder_cases(draw: Any, names: list[str], max_items: int = 14,
                  max_k: int = 12) -> dict:
    """A template, a pool of phase-1 values and ``k`` slack pairs.

    {"tpl": {"kind": "shipped", "name": ...} | {"kind": "gen"|"guillotine",
    "W","H","items"}, "p1": [...], "slack": [[sel, cut], ...], "pseed",
    "hard": {...}|None}. The vector handed to the decoder is
    ``p1[:2*(n_items-min_bins)] + flattened slack`` (``min_bins`` is only
    known once the template instance exists; the pool has the maximal length
    ``2*(n_items-1)``).
    """
    kind = draw(st.sampled_from(["smallitems", "gen", "guillotine", "tiny",
                                 "smallitems", "guillotine", "tiny",
                                 "shipped"]))
    if kind == "shipped":
        name = draw(st.sampled_from(names))
        tpl: dict[str, Any] = {"kind": "shipped", "name": name}
        n_items = _shipped_n_items(name)
    else:
        if kind == "gen":
            # bins above 10^9 (int32 edge) are rejected by
            # InstanceSpace with ValueError - counted. Not int16_2d: cutting
            # a 16380 x 16380 bin yields items like 16380 x 2, for which
            # Instance.__new__ needs minutes and gigabytes (DESIGN.md O3).
            ic = draw(gen_bp.instances(classes=TEMPLATE_CLASSES,
                                       max_items=max_items))
        elif kind == "tiny":
            ic = draw(gen_bp.instances(classes=("tiny", "small"),
                                       max_types=4, max_mult=3,
                                       max_items=7))
        elif kind == "smallitems":
            # items at most half the bin in both directions: several items
            # per bin, so n_items > min_bins and phase 1 has work to do
            bw = draw(st.integers(2, 40))
            bh = draw(st.integers(2, 40))
            rows = []
            left = max_items
            for _t in range(draw(st.integers(1, 5))):
                if left <= 0:
                    break
                m = draw(st.integers(1, min(4, left)))
                left -= m
                rows.append([draw(st.integers(1, max(1, bw // 2))),
                             draw(st.integers(1, max(1, bh // 2))), m])
            ic = {"W": bw, "H": bh, "items": rows}
        else:
            g = draw(gen_bp.guillotine(max_bins=4, max_dim=30, max_depth=3))
            ic = {"W": g["W"], "H": g["H"], "items": g["items"]}
        if draw(st.integers(0, 7)) != 0:
            ic = _orient(ic)  # else: may be rejected by InstanceSpace
        tpl = {"kind": kind, "W": ic["W"], "H": ic["H"],
               "items": ic["items"]}
        n_items = sum(r[2] for r in ic["items"])
    k = draw(st.integers(0, max_k))
    n1 = 2 * max(0, n_items - 1)
    mode = draw(st.integers(0, 5))
    if mode == 0:
        v = draw(st.sampled_from(SPECIAL_REALS))
        p1 = [v] * n1
    elif mode == 1:
        a, b = draw(unit_reals()), draw(unit_reals())
        p1 = [a, b] * (n1 // 2)
    else:
        p1 = draw(st.lists(unit_reals(), min_size=n1, max_size=n1))
    smode = draw(st.integers(0, 3))
    if smode == 0:  # every slack pair cuts as much as it can
        slack = [[draw(unit_reals()),
                  draw(st.sampled_from([NEXT_BELOW_1, -NEXT_BELOW_1]))]
                 for _ in range(k)]
    else:
        slack = draw(st.lists(slack_pair(), min_size=k, max_size=k))
    hard = None
    if draw(st.integers(0, 19)) == 0:
        hard = {"max_fes": draw(st.integers(2, 6)),
                "n_runs": draw(st.integers(1, 2))}
    return {"tpl": tpl, "p1": p1, "slack": slack,
            "pseed": draw(st.integers(0, 2 ** 32 - 1)), "hard": hard}


_N_ITEMS_CACHE: dict[str, int] = {}


def _shipped_n_items(name: str) -> int:
    if name not in _N_ITEMS_CACHE:
        from moptipyapps.binpacking2d.instance import Instance
        _N_ITEMS_CACHE[name] = int(Instance.from_resource(name).n_items)
    return _N_ITEMS_CACHE[name]


# ----------------------------------------------------------------------------
# C19: names, text forms, record tables
# ----------------------------------------------------------------------------

_ALNUM = "abcdefghijklmnopqrstuvwxyzABCDEFGHIJKLMNOPQRSTUVWXYZ0123456789"


@st.composite
def names(draw: Any) -> str:
    """A name that moptipy's sanitize_name leaves unchanged: alphanumeric
    segments joined by single underscores."""
    segs = draw(st.lists(st.text(alphabet=_ALNUM, min_size=1, max_size=6),
                         min_size=1, max_size=3))
    return "_".join(segs)


@st.composite
def instance_text_cases(draw: Any, max_items: int = 14) -> dict:
    """{"name", "inst": gen_bp instance case}: all size classes, repeated and
    multi-digit values."""
    ic = draw(gen_bp.instances(max_items=max_items))
    if draw(st.integers(0, 3)) == 0 and len(ic["items"]) >= 1:
        # repeat a row verbatim (equal item types with separate ids)
        ic = dict(ic)
        ic["items"] = [*ic["items"], list(ic["items"][0])]
    return {"name": draw(names()), "inst": ic}


@st.composite
def packing_text_cases(draw: Any, max_items: int = 14) -> dict:
    """A feasible packing: decoder output or a guillotine layout."""
    if draw(st.booleans()):
        ic = draw(gen_bp.instances(max_items=max_items))
        return {"kind": "decoded", "name": draw(names()), "inst": ic,
                "x": draw(gen_bp.signed_perm(ic)),
                "enc": draw(st.sampled_from([1, 2]))}
    g = draw(gen_bp.guillotine(max_bins=4, max_dim=draw(
        st.sampled_from([9, 40, 120, 1500]))))
    return {"kind": "layout", "name": draw(names()),
            "inst": {"W": g["W"], "H": g["H"], "items": g["items"]},
            "rows": g["rows"], "k": g["k"]}


TTP_NAMES = ("circ8", "nl6", "circ12", "gal4", "bra24", "circ10", "nl8",
             "circ4", "nl16", "circ14", "con6", "nl4", "circ40", "circ20",
             "sup10", "gal12")


@st.composite
def plan_text_cases(draw: Any, have: tuple[str, ...] = TTP_NAMES) -> dict:
    """{"inst": shipped TTP instance name, "n", "days", "plan": [[...]]}.

    Values are in -n..n (what GamePlanSpace.validate admits); the plan need
    not be a feasible schedule."""
    name = draw(st.sampled_from(have))
    n = int("".join(c for c in name if c.isdigit()))
    days = 2 * (n - 1)
    if draw(st.integers(0, 2)) == 0:
        # an instance from the public constructor with 1..4 rounds (all
        # shipped instances are double round robins) and 4..14 or 128 teams
        n = draw(st.sampled_from([4, 4, 6, 6, 8, 10, 12, 14, 128]))
        rounds = draw(st.sampled_from([1, 1, 3, 3, 2, 4])) if n < 128 else 1
        days = rounds * (n - 1)
        name = {"n": n, "rounds": rounds}
    mode = draw(st.sampled_from(["rng", "rng", "const", "drawn"]))
    if mode == "const":
        v = draw(st.sampled_from([-n, n, 0, 1, -1]))
        plan = [[v] * n for _ in range(days)]
    elif mode == "drawn" and n <= 6:
        plan = [[draw(st.integers(-n, n)) for _ in range(n)]
                for _ in range(days)]
    else:
        rnd = random.Random(draw(st.integers(0, 2 ** 32 - 1)))
        plan = [[rnd.randint(-n, n) for _ in range(n)] for _ in range(days)]
        if draw(st.booleans()):  # a proper-looking day: everybody plays
            for row in plan:
                teams = list(range(1, n + 1))
                rnd.shuffle(teams)
                for a, b in zip(teams[::2], teams[1::2]):
                    row[a - 1] = b
                    row[b - 1] = -a
    return {"inst": name, "n": n, "days": days, "plan": plan}


@st.composite
def ordering_text_cases(draw: Any) -> dict:
    """An ordering instance (C20 generator) plus a drawn seed for the
    permutation (the permutation itself depends on the merged size)."""
    return {"o1d": draw(order1d_cases(max_len=12)),
            "perm_seed": draw(st.integers(0, 2 ** 32 - 1)),
            "perm_mode": draw(st.sampled_from(["rng", "identity",
                                               "reversed"]))}


ALGO_POOL = ("rls", "ea_1p1", "rs", "fea")
ENC_POOL = (None, None, "ibl1", "ibl2")
SEED_EDGES = (0, 1, 2 ** 31, 2 ** 63 - 1, 2 ** 63, 2 ** 64 - 1)


@st.composite
def record_tables(draw: Any, max_recs: int = 12,
                  goal_modes: tuple[str, ...] = ("per_group", "per_record",
                                                 "all", "none"),
                  time_modes: tuple[str, ...] = ("distinct", "per_record",
                                                 "all", "none")) -> dict:
    """A table of synthetic end results over real packings.

    {"insts": [{"name", "inst", "packs": [{"x", "enc"}]}],
     "recs": [{"algo", "inst", "pack", "obj" (0..6: index into the package's
     DEFAULT_OBJECTIVES), "enc", "seed", "li_fe", "li_t", "fe_extra",
     "t_extra", "goal": None|number, "max_fes_extra": None|int,
     "max_t": None|int}], "goal_mode"}
    Records are pairwise different in (algo, inst, obj, enc, seed).
    """
    n_inst = draw(st.integers(1, 3))
    insts = []
    for i in range(n_inst):
        ic = draw(gen_bp.instances(classes=("tiny", "small", "medium"),
                                   max_types=4, max_mult=3, max_items=8))
        packs = [{"x": draw(gen_bp.signed_perm(ic)),
                  "enc": draw(st.sampled_from([1, 2]))}
                 for _ in range(draw(st.integers(1, 2)))]
        nm = f"inst{i}" if draw(st.booleans()) else \
            draw(names()) + f"x{i}"
        insts.append({"name": nm, "inst": ic, "packs": packs})
    n_rec = draw(st.sampled_from([v for v in (6, 4, 8, 3, 12, 2, 10, 5, 7, 1,
                                              9, 11) if v <= max_recs]))
    algos = draw(st.lists(st.sampled_from(ALGO_POOL), min_size=1, max_size=2,
                          unique=True))
    # index 7 = a user-defined objective ("excessBins" = bins above the lower
    # bound, so 0 for optimal packings) evaluated next to the seven built-in
    # ones: the only way to get objective values and bounds equal to 0
    custom = draw(st.booleans())
    custom_name = draw(st.sampled_from(["excessBins", "excessBins", "f", "x",
                                        "e2"])) if custom else None
    objs = draw(st.lists(st.integers(0, 7 if custom else 6), min_size=1,
                         max_size=3, unique=True))
    encs = draw(st.lists(st.sampled_from(ENC_POOL), min_size=1, max_size=2))
    goal_mode = draw(st.sampled_from(goal_modes))
    budget_mode = draw(st.sampled_from(["per_record", "all", "none"]))
    time_mode = draw(st.sampled_from(time_modes))
    seeds = draw(st.lists(
        st.one_of(st.sampled_from(SEED_EDGES),
                  st.integers(0, 2 ** 64 - 1), st.integers(0, 1000)),
        min_size=n_rec, max_size=n_rec, unique=True))
    goal_val = st.one_of(st.integers(-3, 400),
                         st.integers(0, 800).map(lambda v: v / 2),
                         st.floats(min_value=0.001, max_value=1e6,
                                   allow_nan=False))
    group_goal: dict[str, Any] = {}
    recs = []
    for r in range(n_rec):
        algo = draw(st.sampled_from(algos))
        ii = draw(st.integers(0, n_inst - 1))
        obj = draw(st.sampled_from(objs))
        enc = draw(st.sampled_from(encs))
        if goal_mode == "none":
            goal = None
        elif goal_mode == "all":
            goal = draw(goal_val)
        elif goal_mode == "per_record":
            goal = draw(st.one_of(st.none(), goal_val))
        else:
            key = f"{algo}|{ii}|{obj}|{enc}"
            if key not in group_goal:
                group_goal[key] = draw(st.one_of(st.none(), goal_val))
            goal = group_goal[key]
        mfe = None if budget_mode == "none" else (
            draw(st.integers(0, 10 ** 6)) if budget_mode == "all" else
            draw(st.one_of(st.none(), st.integers(0, 10 ** 6))))
        if time_mode == "none":
            mt = None
        elif time_mode == "all":
            mt = draw(st.integers(1, 10 ** 6))
        elif time_mode == "distinct":  # pairwise different budgets
            mt = 1000 * draw(st.integers(1, 1000)) + r
        else:
            mt = draw(st.one_of(st.none(), st.integers(1, 10 ** 6)))
        recs.append({
            "algo": algo, "inst": ii,
            "pack": draw(st.integers(0, len(insts[ii]["packs"]) - 1)),
            "obj": obj, "enc": enc, "seed": seeds[r],
            "li_fe": draw(st.one_of(st.integers(1, 50),
                                    st.integers(1, 10 ** 9))),
            "li_t": draw(st.integers(0, 50000)),
            "fe_extra": draw(st.integers(0, 1000)),
            "t_extra": draw(st.integers(0, 5000)),
            "goal": goal, "max_fes_extra": mfe, "max_t": mt,
            "bounds_kept": None})
    if draw(st.integers(0, 3)) == 0:
        # records with different sets of bin-count bounds (result tables
        # only: statistics need identical bounds within a group)
        for rec in recs:
            rec["bounds_kept"] = draw(st.one_of(st.none(), st.lists(
                st.booleans(), min_size=3, max_size=3)))
    return {"insts": insts, "recs": recs, "goal_mode": goal_mode,
            "custom": custom, "custom_name": custom_name,
            "key_order": draw(st.sampled_from([0, 0, 1, 2])),
            # the same records once more as part of a wider table, under a
            # column scope (CsvWriter(scope) / csv_select_scope)
            "scope": draw(st.sampled_from([None, None, "pr", "a.b", "x"])),
            # statistics tables: one subset of the bin-count bounds for all
            # records (None = all three)
            "stats_bounds": draw(st.one_of(st.none(), st.none(), st.lists(
                st.booleans(), min_size=3, max_size=3)))}
