"""Independent reference models for the travelling tournament checks.

No import from moptipyapps. A *plan* is a list of ``D`` rows (days) of ``n``
integers: entry ``v`` of team ``t`` (0-based column) on a day means ``v > 0``:
home game against team ``v``; ``v < 0``: away game at team ``-v``; ``0``: no
game (bye). Team ids are 1-based. ``D = (n - 1) * rounds``.

A constraint setting is the 6-tuple ``st = (home_min, home_max, away_min,
away_max, sep_min, sep_max)``.

Contents
* :func:`infeasibility` - brute-force feasibility checker (C07, C08);
* :func:`rule_counts` - documented per-rule error count of complete,
  mutually consistent plans (C07);
* :class:`Enum4` - table driven evaluation of both for the complete
  enumeration of day-wise consistent plans (cross-checked against the two
  scalar functions while it runs);
* :func:`travel_length` - the tournament walk (C08);
* :func:`blueprint_problems`, :func:`first_free_day` - game encoding (C15).
"""
from __future__ import annotations

from itertools import groupby
from typing import Any, Iterator

RULES = ("home_long", "home_short", "away_long", "away_short", "sep_min",
         "sep_max", "pair_count", "pair_balance")


# ----------------------------------------------------------------------------
# structure of a plan
# ----------------------------------------------------------------------------

def shape_ok(plan: list[list[int]], n: int, rounds: int) -> bool:
    days = (n - 1) * rounds
    return len(plan) == days and all(
        len(row) == n and all(type(v) is int and -n <= v <= n for v in row)
        for row in plan)


def is_complete(plan: list[list[int]]) -> bool:
    """Every team has a game on every day."""
    return all(v != 0 for row in plan for v in row)


def inconsistencies(plan: list[list[int]]) -> list[tuple[int, int]]:
    """All (day, team) whose non-zero entry is not mirrored by the opponent.

    Team t playing at home against o requires that o plays away at t on that
    day and vice versa. A team "meeting itself" can never be mirrored.
    """
    bad = []
    for d, row in enumerate(plan):
        for t, v in enumerate(row):
            if v == 0:
                continue
            o = abs(v) - 1
            want = -(t + 1) if v > 0 else (t + 1)
            if o == t or row[o] != want:
                bad.append((d, t))
    return bad


def self_play(plan: list[list[int]]) -> list[tuple[int, int]]:
    return [(d, t) for d, row in enumerate(plan) for t, v in enumerate(row)
            if abs(v) == t + 1]


def runs(column: list[int]) -> list[tuple[str, int]]:
    """Maximal runs of a team column as ('H'|'A'|'-', length)."""
    kinds = ["H" if v > 0 else ("A" if v < 0 else "-") for v in column]
    return [(k, len(list(g))) for k, g in groupby(kinds)]


def meetings(plan: list[list[int]], n: int) -> dict[tuple[int, int],
                                                    list[tuple[int, int]]]:
    """Unordered pairing (i<j) -> [(day, home team)], from the home entries.

    Only meaningful for mutually consistent plans (each game is then seen
    exactly once, through the entry of its home team).
    """
    res: dict[tuple[int, int], list[tuple[int, int]]] = {
        (i, j): [] for i in range(n) for j in range(i + 1, n)}
    for d, row in enumerate(plan):
        for t, v in enumerate(row):
            if v > 0:
                o = v - 1
                res[(min(t, o), max(t, o))].append((d, t))
    return res


def measure(plan: list[list[int]], n: int) -> dict[str, Any]:
    """Shortest/longest home and away run and smallest/largest number of days
    between two successive meetings of a pairing (None if there is none)."""
    hs: list[int] = []
    as_: list[int] = []
    for t in range(n):
        for k, ln in runs([row[t] for row in plan]):
            if k == "H":
                hs.append(ln)
            elif k == "A":
                as_.append(ln)
    gaps: list[int] = []
    for lst in meetings(plan, n).values():
        ds = sorted(d for d, _h in lst)
        gaps.extend(b - a - 1 for a, b in zip(ds, ds[1:]))
    return {"home": (min(hs), max(hs)) if hs else None,
            "away": (min(as_), max(as_)) if as_ else None,
            "gap": (min(gaps), max(gaps)) if gaps else None}


# ----------------------------------------------------------------------------
# feasibility, written from the statement of the property
# ----------------------------------------------------------------------------

def infeasibility(plan: list[list[int]], n: int, rounds: int,
                  st: tuple[int, ...]) -> list[str]:
    """All reasons why the plan is not a feasible round-robin schedule.

    Reasons start with a tag: shape, bye, inconsistent, pair_count,
    pair_balance, home_short, home_long, away_short, away_long, sep_min,
    sep_max. The empty list means feasible. If a team is idle or the plan is
    not mutually consistent, only these structural reasons are listed.
    """
    hmin, hmax, amin, amax, smin, smax = st
    if not shape_ok(plan, n, rounds):
        return ["shape: not a ((n-1)*rounds, n) matrix over -n..n"]
    why: list[str] = []
    for d, row in enumerate(plan):
        for t, v in enumerate(row):
            if v == 0:
                why.append(f"bye: team {t + 1} idle on day {d}")
    for d, t in inconsistencies(plan):
        why.append(f"inconsistent: day {d} team {t + 1} entry {plan[d][t]}")
    if why:
        return why
    # every pairing `rounds` times, home roles balanced
    for (i, j), lst in meetings(plan, n).items():
        if len(lst) != rounds:
            why.append(f"pair_count: {i + 1}/{j + 1} meet {len(lst)} times")
        hi = sum(1 for _d, h in lst if h == i)
        hj = len(lst) - hi
        if abs(hi - hj) > 1:
            why.append(f"pair_balance: {i + 1}/{j + 1} home {hi}:{hj}")
        ds = sorted(d for d, _h in lst)
        for a, b in zip(ds, ds[1:]):
            between = b - a - 1  # games of both teams in between
            if between < smin:
                why.append(f"sep_min: {i + 1}/{j + 1} days {a},{b}")
            if between > smax:
                why.append(f"sep_max: {i + 1}/{j + 1} days {a},{b}")
    # every maximal streak (also the first and the last one) within limits
    for t in range(n):
        for kind, ln in runs([row[t] for row in plan]):
            if kind == "H":
                if ln < hmin:
                    why.append(f"home_short: team {t + 1} run of {ln}")
                if ln > hmax:
                    why.append(f"home_long: team {t + 1} run of {ln}")
            else:
                if ln < amin:
                    why.append(f"away_short: team {t + 1} run of {ln}")
                if ln > amax:
                    why.append(f"away_long: team {t + 1} run of {ln}")
    return why


def tags(reasons: list[str]) -> set[str]:
    return {r.split(":", 1)[0] for r in reasons}


# ----------------------------------------------------------------------------
# documented per-rule count for complete, mutually consistent plans
# ----------------------------------------------------------------------------

def run_errors(rs: list[tuple[str, int]], st: tuple[int, ...]
               ) -> dict[str, int]:
    """Streak errors of one team: every day beyond the maximum is one error,
    a run that ends (also by the end of the plan) below the minimum costs the
    number of missing days."""
    hmin, hmax, amin, amax = st[:4]
    c = {"home_long": 0, "home_short": 0, "away_long": 0, "away_short": 0}
    for kind, ln in rs:
        if kind == "H":
            c["home_long"] += max(0, ln - hmax)
            c["home_short"] += max(0, hmin - ln)
        elif kind == "A":
            c["away_long"] += max(0, ln - amax)
            c["away_short"] += max(0, amin - ln)
    return c


def pair_errors(days_home_i: list[int], days_home_j: list[int], rounds: int,
                st: tuple[int, ...]) -> dict[str, int]:
    """Errors of one pairing given the days of its games by home team.

    Separation: for two successive meetings with ``g`` days in between,
    ``sep_min - g`` errors if ``g < sep_min`` and ``g - sep_max`` errors if
    ``g > sep_max`` (counted once, not once per team). Count:
    ``|meetings - rounds|``; balance: ``max(0, |home_i - home_j| - 1)``.
    """
    smin, smax = st[4], st[5]
    c = {"sep_min": 0, "sep_max": 0, "pair_count": 0, "pair_balance": 0}
    ds = sorted(days_home_i + days_home_j)
    for a, b in zip(ds, ds[1:]):
        g = b - a - 1
        if g < smin:
            c["sep_min"] += smin - g
        elif g > smax:
            c["sep_max"] += g - smax
    hi, hj = len(days_home_i), len(days_home_j)
    c["pair_count"] = abs(hi + hj - rounds)
    c["pair_balance"] = max(0, abs(hi - hj) - 1)
    return c


def rule_counts(plan: list[list[int]], n: int, rounds: int,
                st: tuple[int, ...]) -> dict[str, int]:
    """Per-rule error counts of a complete, mutually consistent plan."""
    if not shape_ok(plan, n, rounds) or not is_complete(plan) \
            or inconsistencies(plan):
        raise ValueError("rule_counts needs a complete consistent plan")
    total = dict.fromkeys(RULES, 0)
    for t in range(n):
        for k, v in run_errors(runs([row[t] for row in plan]), st).items():
            total[k] += v
    for (i, _j), lst in meetings(plan, n).items():
        di = [d for d, h in lst if h == i]
        dj = [d for d, h in lst if h != i]
        for k, v in pair_errors(di, dj, rounds, st).items():
            total[k] += v
    return total


def rule_counts_with_byes(plan: list[list[int]], n: int, rounds: int,
                          st: tuple[int, ...]) -> dict[str, int]:
    """Documented error count of a mutually consistent plan that may contain
    idle days, for settings under which no separation error can occur
    (``sep_min == 0`` and ``sep_max`` at least the longest possible gap): one
    error per idle (team, day); an idle day ends the running streak, which
    costs the missing days if it is shorter than the minimum; runs beyond the
    maximum cost one error per extra day; pairing counts and balance as for
    complete plans. (With separation limits in force the documentation leaves
    open whether idle days count as "games in between", so this oracle is
    not defined there.)"""
    days = (n - 1) * rounds
    if not shape_ok(plan, n, rounds) or inconsistencies(plan) \
            or self_play(plan):
        raise ValueError("needs a mutually consistent plan")
    if st[4] != 0 or st[5] < days - 2:
        raise ValueError("separation limits must be vacuous")
    total = dict.fromkeys((*RULES, "bye"), 0)
    for t in range(n):
        col = [row[t] for row in plan]
        total["bye"] += sum(1 for v in col if v == 0)
        for k, v in run_errors(runs(col), st).items():
            total[k] += v
    for (i, _j), lst in meetings(plan, n).items():
        di = [d for d, h in lst if h == i]
        dj = [d for d, h in lst if h != i]
        for k, v in pair_errors(di, dj, rounds, st).items():
            total[k] += v
    return total


def sound_upper_bound(n: int, rounds: int, st: tuple[int, ...]) -> int:
    """A bound derived independently of the code: per team and day at most one
    bye/inconsistency, P streak errors (also once for the open last streak),
    S separation errors (not on the first day); the pairing pass at most
    ``sum(ij+ji) + rounds*pairs + sum|ij-ji| <= 2*D*n + D*n/2``."""
    days = (n - 1) * rounds
    p = max(1, st[0] - 1, st[2] - 1)
    s = max(0, st[4], days - 2 - st[5])
    return n * (days + (days + 1) * p + (days - 1) * s) + (5 * days * n) // 2


# ----------------------------------------------------------------------------
# day-wise consistent assignments and their complete enumeration
# ----------------------------------------------------------------------------

def matchings(teams: list[int]) -> Iterator[list[tuple[int, int]]]:
    """All perfect matchings of an even number of teams."""
    if not teams:
        yield []
        return
    a = teams[0]
    for k in range(1, len(teams)):
        b = teams[k]
        rest = teams[1:k] + teams[k + 1:]
        for m in matchings(rest):
            yield [(a, b)] + m


def day_rows(n: int) -> list[list[int]]:
    """All mutually consistent complete assignments of one day (n even):
    every perfect matching with every choice of the home teams.
    n = 4 gives 3 * 4 = 12 rows, n = 6 gives 15 * 8 = 120."""
    rows = []
    for m in matchings(list(range(n))):
        for mask in range(1 << len(m)):
            row = [0] * n
            for g, (a, b) in enumerate(m):
                if (mask >> g) & 1:
                    a, b = b, a
                row[a] = b + 1      # a at home against b
                row[b] = -(a + 1)   # b away at a
            rows.append(row)
    return rows


class Enum4:
    """Table driven oracle for all ``len(rows)**D`` day-wise consistent plans.

    A plan is a tuple of ``D`` indices into :func:`day_rows`. Because every
    day is consistent and complete, the error count decomposes into a sum
    over teams (a function of the team's home/away pattern, a ``D`` bit mask)
    and over pairings (a function of the two masks "days with i at home
    against j" / "days with j at home against i"). Both functions are
    tabulated with :func:`run_errors` / :func:`pair_errors`; ``code[d][k]`` is
    an integer that carries the bits which row ``k`` on day ``d`` contributes
    to all masks, so that the masks of a plan are the OR of ``D`` codes.
    """

    def __init__(self, n: int, rounds: int, st: tuple[int, ...]) -> None:
        self.n, self.rounds, self.st = n, rounds, tuple(st)
        self.days = D = (n - 1) * rounds
        self.rows = day_rows(n)
        self.pairs = [(i, j) for i in range(n) for j in range(i + 1, n)]
        full = (1 << D) - 1
        self.full = full
        # field layout: team t at bits [t*D, (t+1)*D); pairing p two fields
        self.team_shift = [t * D for t in range(n)]
        base = n * D
        self.pair_shift = [base + 2 * p * D for p in range(len(self.pairs))]
        pidx = {pr: p for p, pr in enumerate(self.pairs)}
        self.code = []
        for d in range(D):
            per_day = []
            for row in self.rows:
                c = 0
                for t, v in enumerate(row):
                    if v > 0:
                        c |= 1 << (self.team_shift[t] + d)
                        o = v - 1
                        p = pidx[(min(t, o), max(t, o))]
                        off = 0 if t < o else D
                        c |= 1 << (self.pair_shift[p] + off + d)
                per_day.append(c)
            self.code.append(per_day)
        # team table: mask -> (errors, rule bits, ok)
        bit = {r: 1 << k for k, r in enumerate(RULES)}
        hmin, hmax, amin, amax, smin, smax = self.st
        self.team_tab = []
        for mask in range(1 << D):
            col = [1 if (mask >> d) & 1 else -1 for d in range(D)]
            rs = runs(col)
            errs = run_errors(rs, self.st)
            ok = all((hmin <= ln <= hmax) if k == "H" else
                     (amin <= ln <= amax) for k, ln in rs)
            rb = 0
            for r, v in errs.items():
                if v:
                    rb |= bit[r]
            self.team_tab.append((sum(errs.values()), rb, ok))
        # pair table: (mask_i_home | mask_j_home << D) -> (errors, bits, ok)
        self.pair_tab: list[Any] = [None] * (1 << (2 * D))
        for mi in range(1 << D):
            di = [d for d in range(D) if (mi >> d) & 1]
            for mj in range(1 << D):
                if mi & mj:
                    continue  # one game per pairing and day
                dj = [d for d in range(D) if (mj >> d) & 1]
                errs = pair_errors(di, dj, rounds, self.st)
                ds = sorted(di + dj)
                ok = (len(ds) == rounds and abs(len(di) - len(dj)) <= 1
                      and all(smin <= b - a - 1 <= smax
                              for a, b in zip(ds, ds[1:])))
                rb = 0
                for r, v in errs.items():
                    if v:
                        rb |= bit[r]
                self.pair_tab[mi | (mj << D)] = (sum(errs.values()), rb, ok)
        self.pmask = (1 << (2 * D)) - 1

    def plan(self, idx: tuple[int, ...] | list[int]) -> list[list[int]]:
        return [list(self.rows[k]) for k in idx]

    def eval_code(self, c: int) -> tuple[int, int, bool]:
        """(error count, violated-rule bits, feasible) of the plan whose OR-ed
        code is ``c``."""
        tt, pt, full = self.team_tab, self.pair_tab, self.full
        total = 0
        bits = 0
        ok = True
        for s in self.team_shift:
            e, b, o = tt[(c >> s) & full]
            total += e
            bits |= b
            ok = ok and o
        pm = self.pmask
        for s in self.pair_shift:
            e, b, o = pt[(c >> s) & pm]
            total += e
            bits |= b
            ok = ok and o
        return total, bits, ok

    def code_of(self, idx: tuple[int, ...] | list[int]) -> int:
        c = 0
        for d, k in enumerate(idx):
            c |= self.code[d][k]
        return c

    def feasible_plans(self) -> list[tuple[int, ...]]:
        """Index tuples of all feasible plans (depth first, pruned by the
        necessary conditions "pairing at most `rounds` times" and "same home
        team at most ceil(rounds/2) times", then decided by the tables)."""
        D, rounds = self.days, self.rounds
        half = (rounds + 1) // 2
        nrow = len(self.rows)
        games = []
        for row in self.rows:
            games.append([(t, v - 1) for t, v in enumerate(row) if v > 0])
        res: list[tuple[int, ...]] = []
        cnt: dict[tuple[int, int], int] = {}
        idx: list[int] = []

        def rec(d: int, c: int) -> None:
            if d == D:
                if self.eval_code(c)[2]:
                    res.append(tuple(idx))
                return
            for k in range(nrow):
                good = True
                for (h, a) in games[k]:
                    if cnt.get((h, a), 0) + 1 > half or \
                            cnt.get((h, a), 0) + cnt.get((a, h), 0) + 1 \
                            > rounds:
                        good = False
                        break
                if not good:
                    continue
                for g in games[k]:
                    cnt[g] = cnt.get(g, 0) + 1
                idx.append(k)
                rec(d + 1, c | self.code[d][k])
                idx.pop()
                for g in games[k]:
                    cnt[g] -= 1

        rec(0, 0)
        return res


def rule_names(bits: int) -> list[str]:
    return [r for k, r in enumerate(RULES) if (bits >> k) & 1]


# ----------------------------------------------------------------------------
# travel length (C08)
# ----------------------------------------------------------------------------

def bye_penalty(dist: list[list[int]]) -> int:
    return 2 * max(max(row) for row in dist) + 1


def travel_length(plan: list[list[int]], dist: list[list[int]]) -> int:
    """Total distance of all teams plus the penalty for idle days.

    Each team starts in its home town, moves to the venue of each away
    opponent, is at home for home games, keeps its position on idle days
    (which cost the penalty) and returns home after the last day.
    """
    n = len(dist)
    pen = bye_penalty(dist)
    total = 0
    for t in range(n):
        places = [t]
        for row in plan:
            v = row[t]
            if v == 0:
                total += pen
            elif v < 0:
                places.append(-v - 1)
            else:
                places.append(t)
        places.append(t)
        total += sum(dist[a][b] for a, b in zip(places, places[1:])
                     if a != b)
    return total


def away_streak_max(plan: list[list[int]]) -> int:
    best = 0
    for t in range(len(plan[0]) if plan else 0):
        for k, ln in runs([row[t] for row in plan]):
            if k == "A" and ln > best:
                best = ln
    return best


# ----------------------------------------------------------------------------
# game encoding (C15)
# ----------------------------------------------------------------------------

def game_of(code: int, n: int) -> tuple[int, int]:
    """Game code -> (home, away), 0-based: home = code // (n-1), away =
    code % (n-1), moved up by one when it is not below home."""
    home = code // (n - 1)
    away = code % (n - 1)
    if away >= home:
        away += 1
    return home, away


def blueprint_problems(bp: list[int], n: int, rounds: int) -> list[str]:
    """Why ``bp`` is not the documented game multiset (empty = it is)."""
    why: list[str] = []
    want_len = rounds * n * (n - 1) // 2
    if len(bp) != want_len:
        why.append(f"length {len(bp)} instead of {want_len}")
    if any(not 0 <= c < n * (n - 1) for c in bp):
        return why + ["game code outside 0..n(n-1)-1"]
    if list(bp) != sorted(bp):
        why.append("not sorted")
    home = [[0] * n for _ in range(n)]
    for c in bp:
        h, a = game_of(c, n)
        home[h][a] += 1
    for i in range(n):
        if home[i][i]:
            why.append(f"team {i} plays itself")
        for j in range(i + 1, n):
            if home[i][j] + home[j][i] != rounds:
                why.append(f"pairing {i}/{j} occurs "
                           f"{home[i][j] + home[j][i]} times")
            if abs(home[i][j] - home[j][i]) > 1:
                why.append(f"pairing {i}/{j} home {home[i][j]}:{home[j][i]}")
    hg = [sum(home[i]) for i in range(n)]
    ag = [sum(home[j][i] for j in range(n)) for i in range(n)]
    for i in range(n):
        if abs(hg[i] - ag[i]) > 1:
            why.append(f"team {i}: {hg[i]} home but {ag[i]} away games")
    if max(hg) - min(hg) > 1:
        why.append(f"home games per team range {min(hg)}..{max(hg)}")
    if rounds % 2 == 0 and max(hg) != min(hg):
        why.append("even number of rounds but unequal home game counts")
    return why


def first_free_day(perm: list[int], n: int, days: int
                   ) -> tuple[list[list[int]], int]:
    """Plan prescribed by the decoding rule and the number of dropped games:
    every game, in order, goes to the earliest day on which both teams are
    still free; it is dropped when there is no such day."""
    free = [set(range(days)) for _ in range(n)]
    plan = [[0] * n for _ in range(days)]
    dropped = 0
    for c in perm:
        h, a = game_of(c, n)
        both = free[h] & free[a]
        if not both:
            dropped += 1
            continue
        d = min(both)
        free[h].discard(d)
        free[a].discard(d)
        plan[d][h] = a + 1
        plan[d][a] = -(h + 1)
    return plan, dropped


def scheduled_games(plan: list[list[int]]) -> dict[tuple[int, int], int]:
    """(home, away) -> how often, read from the home entries."""
    res: dict[tuple[int, int], int] = {}
    for row in plan:
        for t, v in enumerate(row):
            if v > 0:
                res[(t, v - 1)] = res.get((t, v - 1), 0) + 1
    return res


def multiset_permutations(items: list[int]) -> Iterator[list[int]]:
    """All distinct orderings of a multiset, in lexicographic order."""
    a = sorted(items)
    n = len(a)
    while True:
        yield list(a)
        i = n - 2
        while i >= 0 and a[i] >= a[i + 1]:
            i -= 1
        if i < 0:
            return
        j = n - 1
        while a[j] <= a[i]:
            j -= 1
        a[i], a[j] = a[j], a[i]
        a[i + 1:] = reversed(a[i + 1:])


def n_multiset_permutations(items: list[int]) -> int:
    from math import factorial
    res = factorial(len(items))
    for v in set(items):
        res //= factorial(items.count(v))
    return res
