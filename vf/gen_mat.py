"""Hypothesis strategies for matrices, permutations and wrapped number texts.

Used by C05/C06/C18 (TSP distance matrices), C09 (QAP flow/distance matrices,
QAPLIB text) and C18 (TSPLIB text). All strategies return plain JSON data.
Matrices are built *by construction* (no filtering):

* TSP matrices: zero diagonal, non-negative entries, at least one positive
  off-diagonal entry per row; symmetric / asymmetric / "almost symmetric"
  (exactly one ordered pair differs); magnitude classes from 0/1 up to 10^12
  and "edge" classes whose derived upper tour-length bound (sum of the row
  maxima) lies within +-3 of 127, 32767 or 2^31-1, i.e. where the instance has
  to switch its storage type.
* QAP matrices: non-negative, any diagonal, magnitude classes such that the
  trivial upper bound sum(sorted(f) * sorted(d)) crosses the int8 ... uint32
  limits and always stays below 10^15.
* ``wrapped_lines``: the line-wrapping generator. A token sequence is cut into
  lines at drawn positions (none, every token, fixed width, random), tokens
  are separated by drawn runs of blanks, lines get leading / trailing blanks
  and optional line ends, blank lines are interspersed.

Entries are drawn as indices into a small drawn palette of values, so that
large matrices cost one choice per entry and ties (equal row minima / maxima)
are frequent.
"""
from __future__ import annotations

from typing import Any

from hypothesis import strategies as st

TEN12 = 10 ** 12
EDGES = (127, 32767, 2 ** 31 - 1)
INT_DTYPES = ("int8", "uint8", "int16", "uint16", "int32", "uint32", "int64",
              "uint64")
DTYPE_MAX = {"int8": 127, "uint8": 255, "int16": 32767, "uint16": 65535,
             "int32": 2 ** 31 - 1, "uint32": 2 ** 32 - 1,
             "int64": 2 ** 63 - 1, "uint64": 2 ** 64 - 1}

TSP_CLASSES = ("bin", "small", "mixed", "mixed", "const", "edge8", "edge16",
               "edge32", "big", "limit", "huge")
#: the limit of tsp.Instance: the sum of the row maxima must not exceed it
TSP_UPPER_LIMIT = 10 ** 15


def dtypes_holding(max_value: int) -> list[str]:
    return [d for d in INT_DTYPES if DTYPE_MAX[d] >= max_value]


# ----------------------------------------------------------------------------
# values
# ----------------------------------------------------------------------------

@st.composite
def magnitude(draw: Any, cap: int) -> int:
    """One non-negative value <= cap from a drawn magnitude class."""
    kind = draw(st.integers(0, 7))
    if kind == 0:
        v = draw(st.integers(0, 1))
    elif kind == 1:
        v = draw(st.integers(0, 126))
    elif kind == 2:
        v = draw(st.integers(124, 130))
    elif kind == 3:
        v = draw(st.integers(250, 258))
    elif kind == 4:
        v = draw(st.integers(32764, 32770))
    elif kind == 5:
        v = draw(st.integers(2 ** 31 - 3, 2 ** 31 + 2))
    elif kind == 6:
        v = draw(st.integers(0, cap))
    else:
        v = cap - draw(st.integers(0, 2))
    return max(0, min(cap, v))


@st.composite
def _entries(draw: Any, count: int, cap: int, cls: str) -> list[int]:
    """``count`` values in 0..cap for the value class ``cls``."""
    if count <= 0:
        return []
    if cls == "bin":
        pal = [0, 1]
    elif cls == "small":
        return draw(st.lists(st.integers(0, min(cap, 126)), min_size=count,
                             max_size=count))
    elif cls == "const":
        pal = [max(1, draw(magnitude(cap)))]
    elif cls == "big":
        k = draw(st.integers(2, 6))
        pal = [draw(st.integers(0, cap)) for _ in range(k)]
        pal.append(cap)
    elif cls == "limit":
        pal = [cap, cap, cap - 1, draw(st.integers(0, cap))]
    else:  # mixed
        k = draw(st.integers(2, 8))
        pal = [draw(magnitude(cap)) for _ in range(k)]
    pal = [min(cap, v) for v in pal]
    idx = draw(st.lists(st.integers(0, len(pal) - 1), min_size=count,
                        max_size=count))
    return [pal[i] for i in idx]


# ----------------------------------------------------------------------------
# TSP distance matrices
# ----------------------------------------------------------------------------

def row_max_sum(m: list[list[int]]) -> int:
    n = len(m)
    return sum(max(m[i][j] for j in range(n) if j != i) for i in range(n))


@st.composite
def tsp_matrix(draw: Any, min_n: int = 2, max_n: int = 12,
               kinds: tuple[str, ...] = ("sym", "asym", "almost"),
               max_upper: int | None = None,
               classes: tuple[str, ...] = TSP_CLASSES) -> dict:
    """{"n", "m", "kind", "cls", "in_dtype"}: a matrix Instance must accept.

    ``max_upper`` bounds the sum of the row maxima (C06: size of the FEA
    frequency table); classes that cannot respect it are replaced.
    """
    if max_n > 16 and draw(st.integers(0, 3)) != 0:
        n = draw(st.integers(min_n, 16))  # large matrices are costly to draw
    else:
        n = draw(st.integers(min_n, max_n))
    if draw(st.integers(0, 3)) == 0:  # small sizes are where edge cases live
        n = draw(st.integers(min_n, min(max_n, min_n + 3)))
    kind = draw(st.sampled_from(kinds))
    cls = draw(st.sampled_from(classes))
    cap = TEN12
    ecls = cls
    if cls == "huge":
        # as large as the constructor admits: sum of row maxima <= 10^15
        if max_upper is None:
            cap = (TSP_UPPER_LIMIT - 1) // n
            ecls = draw(st.sampled_from(["big", "limit", "mixed"]))
        else:
            cls = ecls = "mixed"
    if max_upper is not None:
        cap = max(1, (max_upper - 2) // n)
        if cls == "edge32" or (cls in ("edge8", "edge16") and
                               EDGES[("edge8", "edge16").index(cls)] + 4
                               > max_upper):
            cls = "mixed"
    sym = kind != "asym"
    m = [[0] * n for _ in range(n)]
    if cls in ("edge8", "edge16", "edge32"):
        edge = EDGES[("edge8", "edge16", "edge32").index(cls)]
        v = max(1, (edge - 3) // n)
        sub = draw(st.sampled_from(["mixed", "bin", "small"]))
        vals = draw(_entries(n * (n - 1) // 2 if sym else n * (n - 1), v,
                             sub))
    else:
        edge = v = 0
        vals = draw(_entries(n * (n - 1) // 2 if sym else n * (n - 1), cap,
                             ecls if cls == "huge" else cls))
    it = iter(vals)
    for i in range(n):
        for j in range(n):
            if i == j:
                continue
            if sym:
                if j > i:
                    m[i][j] = m[j][i] = next(it)
            else:
                m[i][j] = next(it)
    if edge:
        # every row gets the maximum v on a ring, then one entry is raised so
        # that the sum of the row maxima hits the drawn target near the edge
        for i in range(n):
            j = (i + 1) % n
            m[i][j] = v
            if sym:
                m[j][i] = v
        target = edge + draw(st.integers(-3, 3))
        diff = max(0, target - n * v)
        if sym:
            m[0][1] = m[1][0] = v + diff // 2
        else:
            m[0][1] = v + diff
    # at least one positive entry per row
    for i in range(n):
        if all(m[i][j] == 0 for j in range(n) if j != i):
            j = (i + 1 + draw(st.integers(0, n - 2))) % n
            if j == i:
                j = (i + 1) % n
            val = max(1, draw(magnitude(cap)))
            m[i][j] = val
            if sym:
                m[j][i] = val
    if kind == "almost":
        i = draw(st.integers(0, n - 1))
        j = (i + 1 + draw(st.integers(0, n - 2))) % n
        old = m[i][j]
        new = old + 1 if (old < cap or old == 0) else old - 1
        if draw(st.booleans()) and old > 1:
            new = draw(st.integers(1, old - 1))
        if new == 0 and all(m[i][c] == 0 for c in range(n)
                            if c not in (i, j)):
            new = old + 1
        m[i][j] = new
    mx = max(max(r) for r in m)
    return {"n": n, "m": m, "kind": kind, "cls": cls,
            "in_dtype": draw(st.sampled_from(dtypes_holding(mx)))}


def perm(n: int) -> Any:
    return st.permutations(list(range(n)))


# ----------------------------------------------------------------------------
# QAP matrices
# ----------------------------------------------------------------------------

QAP_EDGES = (127, 255, 32767, 65535, 2 ** 31 - 1, 2 ** 32 - 1)
# targets for the trivial upper bound far above the storage-type edges: the
# raised entry then exceeds 10^12 (but the bound stays below 10^15)
QAP_HUGE_TARGETS = (5 * 10 ** 12, 123456789012345, 899999999999999,
                    10 ** 15 - 5)
QAP_LIMIT = 10 ** 15

#: (dtype of the distance input, dtype of the flow input): a fixed small set,
#: because every pair costs one compilation of trivial_bounds (~1 s)
QAP_DTYPE_PAIRS = (("int64", "int64"), ("uint64", "uint64"),
                   ("int8", "int8"), ("uint8", "int16"), ("int16", "uint8"),
                   ("int32", "int64"), ("uint32", "uint16"),
                   ("int64", "int32"), ("uint16", "uint32"),
                   ("int64", "uint64"))


def sorted_product_sum(a: list[int], b: list[int]) -> int:
    return sum(x * y for x, y in zip(sorted(a), sorted(b)))


@st.composite
def qap_matrices(draw: Any, min_n: int = 1, max_n: int = 8) -> dict:
    """{"n","flows","dists","cls","d_dtype","f_dtype"} with upper bound < 10^15."""
    sizes = [v for v in range(min_n, max_n + 1)
             for _ in range(1 if v <= 1 else (2 if v == 2 else 3))]
    n = draw(st.sampled_from(sizes))
    n2 = n * n
    cls = draw(st.sampled_from(["bin", "small", "mixed", "mixed", "const",
                                "edge", "edge", "big", "zero_diag",
                                "one_zero"]))
    if cls == "edge":
        # one side 0/1, the other small; then the largest entry of the other
        # side is raised so that the bound hits a target next to a type limit
        edge = draw(st.sampled_from(QAP_EDGES + QAP_HUGE_TARGETS[:2]
                                    + QAP_HUGE_TARGETS))
        ones = draw(st.lists(st.integers(0, 1), min_size=n2, max_size=n2))
        if edge > 2 ** 33 and sum(ones) > 3:  # keep the raised entry huge
            keep = 0
            for t in range(n2):
                if ones[t]:
                    keep += 1
                    if keep > 2:
                        ones[t] = 0
        if sum(ones) == 0:
            ones[draw(st.integers(0, n2 - 1))] = 1
        k = sum(ones)
        other = draw(_entries(n2, max(1, (edge - 3) // (k + 1)),
                              draw(st.sampled_from(["mixed", "small",
                                                    "bin"]))))
        target = edge + draw(st.integers(-3, 3))
        ub0 = sorted_product_sum(ones, other)
        if ub0 < target:
            big = max(range(n2), key=lambda t: (other[t], t))
            other[big] += target - ub0
        if draw(st.booleans()):
            fl, di = ones, other
        else:
            fl, di = other, ones
    else:
        sub = "mixed" if cls in ("zero_diag", "one_zero") else cls
        fcap = draw(st.sampled_from([1, 9, 126, 1000, 10 ** 5, 10 ** 7]))
        dcap = max(1, (QAP_LIMIT - 1) // (fcap * n2))
        dcap = min(dcap, draw(st.sampled_from([1, 9, 126, 300, 40000,
                                               10 ** 7, 10 ** 12])))
        if draw(st.booleans()):
            fcap, dcap = dcap, fcap
        fl = draw(_entries(n2, fcap, sub))
        di = draw(_entries(n2, dcap, sub if sub != "const" else
                           draw(st.sampled_from(["const", "mixed"]))))
        if cls == "zero_diag":
            for i in range(n):
                fl[i * n + i] = 0
                di[i * n + i] = 0
        if cls == "one_zero":
            # one matrix identically zero (all bounds are 0), the other one
            # with at least one entry beyond int8 / int16
            big = draw(st.sampled_from([128, 200, 256, 40000, 70000,
                                        2 ** 31, 10 ** 12]))
            if draw(st.booleans()):
                fl = [0] * n2
                di[draw(st.integers(0, n2 - 1))] = big
            else:
                di = [0] * n2
                fl[draw(st.integers(0, n2 - 1))] = big
    shape = "as_drawn"
    if cls != "edge" and n >= 2:
        # most QAPLIB instances are symmetric; "almost": mirrored entries
        # that differ by a few units only (also between large values)
        shape = draw(st.sampled_from(["as_drawn", "as_drawn", "symmetric",
                                      "almost_symmetric"]))
    if shape != "as_drawn":
        for vec in (fl, di):
            for i in range(n):
                for j in range(i):
                    vec[i * n + j] = vec[j * n + i]
        if shape == "almost_symmetric":
            for vec in ((fl, di), (di,), (fl,))[draw(st.integers(0, 2))]:
                for _ in range(draw(st.integers(1, 3))):
                    i = draw(st.integers(1, n - 1))
                    j = draw(st.integers(0, i - 1))
                    delta = draw(st.integers(1, 25))
                    if vec[i * n + j] >= delta:  # stays within the caps
                        vec[i * n + j] -= delta
                    else:
                        vec[i * n + j] = 0
        cls = f"{cls}/{shape}"
    flows = [fl[i * n:(i + 1) * n] for i in range(n)]
    dists = [di[i * n:(i + 1) * n] for i in range(n)]
    mxd, mxf = max(di), max(fl)
    pairs = [p for p in QAP_DTYPE_PAIRS
             if DTYPE_MAX[p[0]] >= mxd and DTYPE_MAX[p[1]] >= mxf]
    dd, fd = draw(st.sampled_from(pairs))
    return {"n": n, "flows": flows, "dists": dists, "cls": cls,
            "d_dtype": dd, "f_dtype": fd}


# ----------------------------------------------------------------------------
# the line-wrapping generator
# ----------------------------------------------------------------------------

WRAP_MODES = ("single", "each", "rows", "width", "random", "random",
              "random")


@st.composite
def cut_points(draw: Any, count: int, row_len: int = 0) -> list[int]:
    """Token counts per line (sum == count) for ``count`` tokens."""
    if count <= 0:
        return []
    mode = draw(st.sampled_from(WRAP_MODES))
    if mode == "rows" and row_len <= 0:
        mode = "width"
    if mode == "single":
        return [count]
    if mode == "each":
        return [1] * count
    if mode in ("rows", "width"):
        w = row_len if mode == "rows" else draw(st.integers(1, max(1, min(
            count, 2 * max(row_len, 6)))))
        res = [w] * (count // w)
        if count % w:
            res.append(count % w)
        return res
    dens = draw(st.sampled_from([2, 3, 5, 9, 17]))
    flags = draw(st.lists(st.integers(0, dens - 1), min_size=count - 1,
                          max_size=count - 1))
    res = []
    cur = 1
    for f in flags:
        if f == 0:
            res.append(cur)
            cur = 1
        else:
            cur += 1
    res.append(cur)
    return res


@st.composite
def wrapped_lines(draw: Any, tokens: list[str], row_len: int = 0,
                  tabs: bool = False, line_ends: bool = True,
                  blank_lines: bool = True,
                  counts: list[int] | None = None) -> list[str]:
    """Write ``tokens`` as lines of text; only blanks separate them."""
    if counts is None:
        counts = draw(cut_points(len(tokens), row_len))
    style = draw(st.sampled_from(["plain", "plain", "ragged", "ragged",
                                  "wide"]))
    seps = [" "] if style == "plain" else (
        [" ", "  ", "   "] if style == "ragged" else [" ", "    ", "  "])
    if tabs and style != "plain":
        seps = seps + ["\t", " \t"]
    eol = draw(st.sampled_from(["", "\n"])) if line_ends else ""
    lines: list[str] = []
    pos = 0
    for c in counts:
        part = tokens[pos:pos + c]
        pos += c
        if style == "plain":
            text = " ".join(part)
        else:
            sel = draw(st.lists(st.integers(0, len(seps) - 1),
                                min_size=len(part), max_size=len(part)))
            text = part[0] if part else ""
            for k in range(1, len(part)):
                text += seps[sel[k]] + part[k]
            deco = sel[0] if sel else 0
            if deco == 1:
                text = "  " + text
            elif deco == 2:
                text = text + "   "
            elif deco >= 3:
                text = " " + text + " "
        if blank_lines and draw(st.integers(0, 7)) == 0:
            lines.append(draw(st.sampled_from(["", "   "])) + eol)
        lines.append(text + eol)
    if blank_lines and draw(st.integers(0, 5)) == 0:
        lines.append(eol)
    return lines


def token_counts(lines: list[str]) -> list[int]:
    """Number of blank-separated tokens on each non-blank line."""
    return [len(ln.split()) for ln in lines if ln.strip()]


def split_stats(counts: list[int], block_lens: list[int]) -> dict:
    """How the lines relate to consecutive blocks (rows) of given lengths.

    Returns {"split": a block is spread over several lines,
             "shared": a line holds tokens of two different blocks}.
    """
    bounds = []
    tot = 0
    for b in block_lens:
        bounds.append((tot, tot + b))
        tot += b
    spans = []
    p = 0
    for c in counts:
        spans.append((p, p + c))
        p += c
    split = shared = False
    for (a, b) in spans:
        touched = [k for k, (s, e) in enumerate(bounds) if s < b and a < e]
        if len(touched) > 1:
            shared = True
        for k in touched:
            s, e = bounds[k]
            if a > s or b < e:
                split = True
    return {"split": split, "shared": shared}


# ----------------------------------------------------------------------------
# names and comments for TSPLIB headers
# ----------------------------------------------------------------------------

_ALNUM = "abcdefghijklmnopqrstuvwxyzABCDEFGHIJKLMNOPQRSTUVWXYZ0123456789"


@st.composite
def names(draw: Any) -> str:
    """Names that moptipy's sanitize_name leaves unchanged."""
    parts = draw(st.lists(st.text(alphabet=_ALNUM, min_size=1, max_size=6),
                          min_size=1, max_size=3))
    name = "_".join(parts)
    # names that look like file names / keywords of the formats they end up in
    tail = draw(st.sampled_from(["", "", "", "", "tsp", "atsp", "_tsp", "xml",
                                 "eof", "EOF", "name", "txt", "csv"]))
    return name + tail


@st.composite
def comments(draw: Any) -> list[str]:
    """0..3 single-line comments that are non-empty after stripping."""
    alpha = st.sampled_from(list(
        " abcxyzEOFNAMETYP0123456789:;,.-_()/+*#'\"!?%&=<>[]äß汤"))
    res = []
    for _ in range(draw(st.integers(0, 3))):
        t = draw(st.text(alphabet=alpha, min_size=1, max_size=30)).strip()
        res.append(t if t else "c")
    return res
