"""C01 - every decoded bin packing is physically feasible."""
from __future__ import annotations

from typing import Any

from vf import gen_bp, oracle_bp
from vf.core import Ctx, require, sut

META = {
    "rule": "instances are built by construction from 9 size classes (tiny, "
            "small, medium, int8/int16/int32 storage-type edges, 10^9..10^12 "
            "bins, >126 items) x shuffled signed permutations x both "
            "encodings, destination packing pre-filled with garbage; a case is "
            "non-trivial when the packing uses more than one bin, or a "
            "rotation was forced because the requested orientation does not "
            "fit the bin, or the instance sits in a storage-type edge class; "
            "distinct = distinct (instance, permutation, encoding) triples",
    "assumptions": [
        "feasibility is judged by vf/oracle_bp.infeasibility (pure Python, "
        "no code of the package)",
        "edge/huge classes use unit-thin items (cost limit of "
        "Instance.__new__, DESIGN.md section 3)"],
    "shards": [4, 16],
}


def forced_rotations(case: dict) -> int:
    inst = case["inst"]
    W, H = inst["W"], inst["H"]
    n = 0
    for v in case["x"]:
        w, h, _m = inst["items"][abs(v) - 1]
        if v < 0:
            w, h = h, w
        if w > W or h > H:
            n += 1
    return n


def check_decode(ctx: Ctx, case: dict) -> None:
    ic = case["inst"]
    W, H, items = ic["W"], ic["H"], ic["items"]
    inst = sut("Instance()", gen_bp.build_instance, ic)
    want = oracle_bp.expected_dtype(W, H, items)
    require(inst.dtype.name == want,
            lambda: f"instance dtype {inst.dtype.name}, needs {want}")
    y = sut("decode", gen_bp.decode, inst, case["x"], case["enc"],
            case["garbage"])
    rows = gen_bp.rows_of(y)
    why = oracle_bp.infeasibility(W, H, items, rows, y.n_bins)
    require(not why, lambda: f"encoding {case['enc']} produced an infeasible "
            f"packing: {why[:4]}; rows={rows[:12]}")
    require(y.dtype is inst.dtype, "packing dtype differs from instance")
    require(y.instance is inst, "packing lost its instance")
    # rows are in processing order: row i holds item |x[i]|
    require(all(r[0] == abs(v) for r, v in zip(rows, case["x"])),
            "row order does not follow the permutation")
    k = y.n_bins
    forced = forced_rotations(case)
    n_items = len(rows)
    labels = [f"cls={ic.get('cls', '?')}", f"dtype={inst.dtype.name}",
              f"enc={case['enc']}",
              "bins=1" if k == 1 else ("bins=2..3" if k <= 3 else "bins>=4")]
    if forced:
        labels.append("forced_rotation")
    if k == n_items and n_items > 1:
        labels.append("every_item_own_bin")
    if W == 1 and H == 1:
        labels.append("bin_1x1")
    edge = ic.get("cls", "") not in ("tiny", "small", "medium")
    ctx.rec.case(case, nontrivial=(k > 1 or forced > 0 or edge),
                 labels=labels)


SUBS = {"decode": check_decode}


def run(ctx: Ctx) -> None:
    max_items = ctx.pick(14, 40)
    ctx.given("decode",
              gen_bp.instance_and_perm(max_items=max_items,
                                       max_types=ctx.pick(6, 10)),
              check_decode, quick=1500, thorough=16 * 8000)
