"""C15 - the game encoding: composition of the search space and first-free-day
decoding of game permutations."""
from __future__ import annotations

from typing import Any

from hypothesis import strategies as st

from vf import gen_ttp, oracle_ttp
from vf.core import Ctx, HarnessError, require, sut

META = {
    "rule": "three sub-checks. (1) 'blueprint': every (n, rounds) with 2 <= "
            "n <= 12, 1 <= rounds <= 7 except (2, 1) - 76 search spaces, "
            "through search_space_for_n_and_rounds and, for even n, also "
            "through GameEncoding(instance).search_space() with an instance "
            "from the public constructor. (2) 'decode_all': every distinct "
            "ordering of the blueprint for the (n, rounds) whose blueprint "
            "has at most 5040 orderings ((2,2)..(2,13), (3,1), (3,2), "
            "(4,1)). (3) 'decode': generated orderings (uniform shuffles for "
            "up to 48 games, otherwise structured start orders with drawn "
            "swaps, reversals and rotations) for n = 2..10 including odd n, "
            "rounds 1..4, destination plan pre-filled with a drawn value; "
            "even n decode through GameEncoding(instance).decode into a "
            "GamePlan of an instance with generated distance matrix, names "
            "and setting, odd n (rejected by the Instance constructor) "
            "through map_games into a plain array of the plan storage type. "
            "(4) 'decode_edge': a few orderings for 126, 128 and 130 teams "
            "(one round, > 8000 games) decoded through the public "
            "constructor - the team counts around the int8/int16 edge of "
            "the plan storage type. "
            "(5) 'sizes': one decoding for every (quick: every third) team "
            "count 3..260 ((2, 1) is the excluded degenerate case), judged by consistency / no self-play / game "
            "multiset, full model for n <= 40. (6) 'blueprint_big': "
            "blueprints for 8..1001 rounds (int and numpy-integer "
            "arguments). "
            "A decoding is non-trivial when at least one game had to be "
            "dropped or n is odd; distinct = distinct (n, rounds, ordering)",
    "assumptions": [
        "the decoding rule and the fairness conditions are modelled in "
        "vf/oracle_ttp.py (first_free_day, blueprint_problems; pure Python)",
        "odd n cannot be wrapped in a ttp.Instance (constructor demands an "
        "even number of teams); they are decoded with the module-level "
        "functions the encoding object delegates to"],
    "shards": [4, 16],
    "technique": "property-based testing: exhaustive check of 76 search "
                 "spaces, exhaustive and Hypothesis-generated game "
                 "permutations against a first-free-day reference decoder",
    "level_text": "generated permutations compared with an independent "
                  "decoder model; exhaustive over the listed (n, rounds) "
                  "blueprints and over all orderings of the smallest "
                  "blueprints",
    "level_note": "trusts vf/oracle_ttp.py as the reading of the documented "
                  "rule; n > 12 and rounds > 7 are not enumerated",
}

BLUEPRINT_DOMAIN = [(n, r) for n in range(2, 13) for r in range(1, 8)
                    if (n, r) != (2, 1)]
DECODE_ALL = [(2, r) for r in range(2, 14)] + [(3, 1), (3, 2), (4, 1)]


# ----------------------------------------------------------------------------
# access to the code under test
# ----------------------------------------------------------------------------

def _plain_instance(n: int, rounds: int) -> dict:
    return {"n": n, "rounds": rounds,
            "st": gen_ttp.bundled_setting(n, rounds)}


def _space_and_decoder(n: int, rounds: int, ic: dict | None,
                       layout: str = "C") -> tuple[Any, Any, Any]:
    """(search space, decode function, factory of destination plans)."""
    import numpy as np
    from moptipy.utils.nputils import int_range_to_dtype
    from moptipyapps.ttp.game_encoding import (
        GameEncoding,
        map_games,
        search_space_for_n_and_rounds,
    )
    from moptipyapps.ttp.game_plan_space import GamePlanSpace
    days = (n - 1) * rounds
    if ic is not None:
        inst = sut("ttp.Instance()", gen_ttp.build_instance, ic)
        enc = sut("GameEncoding()", GameEncoding, inst)
        space = sut("GameEncoding.search_space", enc.search_space)
        plans = GamePlanSpace(inst)
        return space, enc.decode, plans.create
    space = sut("search_space_for_n_and_rounds",
                search_space_for_n_and_rounds, n, rounds)
    dtype = int_range_to_dtype(-n, n)

    def make_plan() -> Any:
        # map_games is a public function: the destination may be any
        # (days, n) integer array, whatever its memory layout
        if layout == "F":
            return np.empty((days, n), dtype, order="F")
        if layout == "strided":  # e.g. one slot of a population array
            return np.empty((2 * days, 2 * n), dtype)[::2, 1::2]
        if layout == "slot":
            return np.empty((days, n, 3), dtype)[:, :, 1]
        return np.empty((days, n), dtype)

    return space, map_games, make_plan


def _decode(space: Any, decode: Any, make_plan: Any, perm: list[int],
            garbage: int) -> list[list[int]]:
    x = space.create()
    if len(x) != len(perm):
        raise HarnessError("permutation length differs from the space")
    x[:] = perm
    sut("Permutations.validate", space.validate, x)
    y = make_plan()
    y.fill(garbage)
    sut("decode", decode, x, y)
    require([int(v) for v in x] == list(perm), "decode changed the "
            "permutation")
    return gen_ttp.plan_of(y)


def _compare(n: int, rounds: int, perm: list[int], got: list[list[int]]
             ) -> int:
    """Require the decoded plan to be the prescribed one; returns the number
    of dropped games."""
    days = (n - 1) * rounds
    want, dropped = oracle_ttp.first_free_day(perm, n, days)
    require(got == want, lambda: f"n={n}, rounds={rounds}, permutation "
            f"{perm}: decoded {got}, earliest-free-day rule gives {want}")
    # consequences, checked directly on the decoded plan
    require(all(-n <= v <= n for row in got for v in row),
            "entry outside -n..n")
    bad = oracle_ttp.inconsistencies(got)
    require(not bad, lambda: f"decoded plan is not mutually consistent at "
            f"(day, team) {bad[:4]}: {got}")
    have = oracle_ttp.scheduled_games(got)
    avail: dict[tuple[int, int], int] = {}
    for c in perm:
        g = oracle_ttp.game_of(c, n)
        avail[g] = avail.get(g, 0) + 1
    for g, k in have.items():
        require(k <= avail.get(g, 0), lambda: f"game {g} scheduled {k} "
                f"times, the permutation contains it {avail.get(g, 0)} "
                f"times")
    require(sum(have.values()) + dropped == len(perm),
            "scheduled + dropped games != length of the permutation")
    return dropped


# ----------------------------------------------------------------------------
# sub-checks
# ----------------------------------------------------------------------------

def check_blueprint(ctx: Ctx, case: dict) -> None:
    n, rounds = case["n"], case["rounds"]
    space, _dec, _mk = _space_and_decoder(n, rounds, None)
    bp = [int(v) for v in space.blueprint]
    why = oracle_ttp.blueprint_problems(bp, n, rounds)
    require(not why, lambda: f"search space for n={n}, rounds={rounds} is "
            f"{bp}: {why[:5]}")
    labels = ["n odd" if n % 2 else "n even",
              "rounds odd" if rounds % 2 else "rounds even"]
    if n % 2 == 0:
        sp2, _d, _m = _space_and_decoder(n, rounds,
                                         _plain_instance(n, rounds))
        bp2 = [int(v) for v in sp2.blueprint]
        require(bp2 == bp, lambda: f"GameEncoding.search_space() gives "
                f"{bp2}, search_space_for_n_and_rounds {bp}")
        labels.append("via_instance")
    ctx.rec.case(case, nontrivial=True, labels=labels)


def check_decode_all(ctx: Ctx, case: dict) -> None:
    """Every distinct ordering of the blueprint of (n, rounds)."""
    n, rounds = case["n"], case["rounds"]
    ic = _plain_instance(n, rounds) if n % 2 == 0 else None
    space, decode, make_plan = _space_and_decoder(n, rounds, ic)
    bp = [int(v) for v in space.blueprint]
    total = oracle_ttp.n_multiset_permutations(bp)
    if total > 5040:
        raise HarnessError(f"{total} orderings for n={n}, rounds={rounds}")
    count = with_drop = 0
    for k, perm in enumerate(oracle_ttp.multiset_permutations(bp)):
        got = _decode(space, decode, make_plan, perm, (k % (2 * n + 1)) - n)
        if _compare(n, rounds, perm, got) > 0:
            with_drop += 1
        count += 1
        if ctx.warm and count >= 50:
            break
    if count != total and not ctx.warm:
        raise HarnessError(f"enumerated {count} of {total} orderings")
    ctx.rec.case(case, nontrivial=True, labels=["decode_all_block"])
    st = ctx.__dict__.setdefault("_c15_all", {"spaces": 0, "orderings": 0,
                                              "with_dropped_game": 0})
    st["spaces"] += 1
    st["orderings"] += count
    st["with_dropped_game"] += with_drop


def check_decode(ctx: Ctx, case: dict) -> None:
    n, rounds, shuffle = case["n"], case["rounds"], case["shuffle"]
    layout = ("C", "F", "strided", "slot")[abs(int(case["garbage"])) % 4] \
        if case.get("inst") is None else "C"
    space, decode, make_plan = _space_and_decoder(n, rounds,
                                                  case.get("inst"), layout)
    bp = [int(v) for v in space.blueprint]
    if sorted(shuffle) != list(range(len(bp))):
        # the blueprint has another length than the property prescribes
        require(len(bp) == gen_ttp.n_games(n, rounds), f"search space of "
                f"length {len(bp)} for n={n}, rounds={rounds}")
        raise HarnessError("shuffle is not an index permutation")
    perm = [bp[i] for i in shuffle]
    got = _decode(space, decode, make_plan, perm, case["garbage"])
    dropped = _compare(n, rounds, perm, got)
    labels = [f"n={n}", "n odd" if n % 2 else "n even", f"rounds={rounds}",
              f"dest_layout={layout}",
              "dropped=0" if dropped == 0 else (
                  "dropped=1..3" if dropped <= 3 else "dropped>3"),
              "games<=48" if len(bp) <= 48 else "games>48"]
    if dropped == 0:
        labels.append("complete_schedule" if n <= 3
                      else "complete_schedule_n>=4")
    if perm == bp:
        labels.append("sorted_blueprint")
    ctx.rec.case(case, nontrivial=(dropped > 0 or n % 2 == 1),
                 labels=labels)


def check_sizes(ctx: Ctx, case: dict) -> None:
    """One decoding per team count up to 260 (single round robin), judged by
    the cheap consequences of the rule: mutual consistency, no self-play,
    no game scheduled more often than the permutation contains it, nothing
    scheduled twice per team and day. Catches arithmetic that only fails for
    particular team counts; the full model runs for n <= 40."""
    import numpy as np
    n, rounds = case["n"], 1
    ic = _plain_instance(n, rounds) if n % 2 == 0 else None
    space, decode, make_plan = _space_and_decoder(
        n, rounds, ic, ("C", "F", "strided", "slot")[(n // 2) % 4])
    bp = [int(v) for v in space.blueprint]
    require(len(bp) == n * (n - 1) // 2, f"blueprint of length {len(bp)}")
    order = {"sorted": bp, "reversed": bp[::-1],
             "interleaved": bp[::2] + bp[1::2]}[case["order"]]
    x = space.create()
    x[:] = order
    y = make_plan()
    y.fill(0)
    sut("decode", decode, x, y)
    arr = np.asarray(y).astype(np.int64)
    days = n - 1
    require(arr.shape == (days, n) and int(np.abs(arr).max(initial=0)) <= n,
            "decoded plan has the wrong shape or entries outside -n..n")
    avail: dict[tuple[int, int], int] = {}
    for c in order:
        g = oracle_ttp.game_of(c, n)
        avail[g] = avail.get(g, 0) + 1
    seen: dict[tuple[int, int], int] = {}
    for d in range(days):
        row = arr[d]
        for t in range(n):
            v = int(row[t])
            if v == 0:
                continue
            o = abs(v) - 1
            require(o != t, f"n={n}: team {t + 1} plays itself on day {d}")
            back = int(row[o])
            require(back == (-(t + 1) if v > 0 else (t + 1)),
                    lambda: f"n={n}, day {d}: team {t + 1} has {v} but team "
                    f"{o + 1} has {back}")
            if v > 0:
                seen[(t, o)] = seen.get((t, o), 0) + 1
    for g, k in seen.items():
        require(k <= avail.get(g, 0), lambda: f"n={n}: game {g} (home, away)"
                f" scheduled {k} times, the permutation contains it "
                f"{avail.get(g, 0)} times")
    if n <= 40:
        _compare(n, rounds, order, gen_ttp.plan_of(y))
    ctx.rec.case(case, nontrivial=True, labels=[
        "sizes", "sizes:n<=40" if n <= 40 else (
            "sizes:n<=128" if n <= 128 else "sizes:n>128")])


# (n, rounds) far outside the exhaustively checked blueprint domain: many
# rounds (parity handling of the last round) - through the module function
BIG_ROUNDS = tuple((n, r) for n in (2, 3, 4, 5, 6)
                   for r in (8, 9, 31, 99, 100, 101, 255, 256, 257, 258, 259,
                             261, 300, 1001)) + ((12, 21), (13, 21))


def check_blueprint_big(ctx: Ctx, case: dict) -> None:
    import numpy as np
    from moptipyapps.ttp.game_encoding import search_space_for_n_and_rounds
    n, rounds = case["n"], case["rounds"]
    a = n if case["argtype"] == "int" else np.int64(n)
    b = rounds if case["argtype"] == "int" else np.int64(rounds)
    try:
        space = sut("search_space_for_n_and_rounds",
                    search_space_for_n_and_rounds, a, b,
                    allowed=(TypeError, ValueError))
    except (TypeError, ValueError):
        require(case["argtype"] != "int", f"n={n}, rounds={rounds} rejected")
        ctx.rec.case(case, labels=["blueprint_big:numpy_args_rejected"])
        return
    bp = [int(v) for v in space.blueprint]
    why = oracle_ttp.blueprint_problems(bp, n, rounds)
    require(not why, lambda: f"search space for n={n}, rounds={rounds} "
            f"({case['argtype']} arguments): {why[:5]}")
    ctx.rec.case(case, nontrivial=True, labels=[
        "blueprint_big", f"blueprint_big:{case['argtype']}",
        "rounds odd" if rounds % 2 else "rounds even"])


# team counts next to the point where the game-plan storage type (range
# -n..n) changes from int8 to int16; the constructor only accepts even n
EDGE_TEAMS = (126, 128, 130)


@st.composite
def edge_cases(draw: Any) -> dict:
    """Decodings through the public constructor for 126/128/130 teams (one
    round, 8001..8385 games): the plan must be able to hold +/-n."""
    n = draw(st.sampled_from(EDGE_TEAMS))
    rounds = 1
    return {"n": n, "rounds": rounds,
            "shuffle": draw(gen_ttp.index_shuffles(
                gen_ttp.n_games(n, rounds))),
            "garbage": draw(st.integers(-n, n)),
            "inst": _plain_instance(n, rounds)}


SUBS = {"blueprint": check_blueprint, "decode_all": check_decode_all,
        "decode": check_decode, "decode_edge": check_decode,
        "sizes": check_sizes, "blueprint_big": check_blueprint_big}


def run(ctx: Ctx) -> None:
    n_bp = ctx.each("blueprint", ctx.my_share(
        {"n": n, "rounds": r} for n, r in BLUEPRINT_DOMAIN), check_blueprint)
    ctx.each("decode_all", ctx.my_share(
        {"n": n, "rounds": r} for n, r in DECODE_ALL), check_decode_all)
    if not ctx.warm:
        ctx.rec.subreport(
            "exhaustive_blueprints", exhaustive=True,
            domain="2 <= n <= 12, 1 <= rounds <= 7, (n, rounds) != (2, 1) "
            "(summed over shards)", count=n_bp)
        st = ctx.__dict__.get("_c15_all")
        if st:
            ctx.rec.subreport(
                "exhaustive_decodings", exhaustive=True,
                domain="all distinct orderings of the blueprints of "
                "(2,2)..(2,13), (3,1), (3,2), (4,1) (summed over shards)",
                **st)
    ctx.each("blueprint_big", ctx.my_share(
        {"n": n, "rounds": r, "argtype": t} for (n, r) in BIG_ROUNDS
        for t in ("int", "numpy")), check_blueprint_big)
    # quick: every third team count (rotating with the seed), thorough: all
    step = 1 if ctx.thorough else 3
    ctx.each("sizes", ctx.my_share(
        {"n": n, "order": o} for n in range(3 + ctx.seed % step, 261, step)
        for o in (("sorted", "reversed", "interleaved") if ctx.thorough
                  else (("sorted", "reversed", "interleaved")[n % 3],))),
        check_sizes)
    ctx.given("decode", gen_ttp.decode_cases(), check_decode,
              quick=2400, thorough=16 * 10000)
    ctx.given("decode_edge", edge_cases(), check_decode, quick=8,
              thorough=16 * 6, shrink=False)
