"""C02 - the seven packing objectives equal their definitions, respect their
bounds, convert back to the bin count and order packings by bin count."""
from __future__ import annotations

from typing import Any

from hypothesis import strategies as st

from vf import gen_bp, oracle_bp
from vf.core import Ctx, HarnessError, require, sut

META = {
    "rule": "one case = one instance with 4 feasible packings (decodings by "
            "both encodings, the layout of the documented rule with rows "
            "shuffled / bins renamed / a sparse extra last bin, the known "
            "guillotine layout with unsorted rows, one item per bin); one "
            "set of the seven objective objects is re-used for all packings "
            "of the case (dirty scratch arrays) and every packing is "
            "evaluated twice, the second time after all others; all pairs "
            "with different bin counts are compared for dominance. "
            "Sub-check 'decoded' draws instances from all 9 size classes "
            "(storage types int8..int64, bins up to 10^12), 'layouts' draws "
            "guillotine instances, 'tight' draws layouts that attain the "
            "declared lower bounds (k-1 completely covered bins plus a last "
            "bin holding one more copy of the smallest item), 'huge_area' "
            "draws bins with an area between 2^53 and 2^61 (objective values "
            "no longer exact as floats). A case is non-trivial when some packing "
            "has >= 2 bins with rows not sorted by bin, or a bin whose "
            "skyline covers a hole (area under the skyline > covered area); "
            "distinct = distinct (instance, packings) cases",
    "assumptions": [
        "domain restriction: n_items * bin_area < 2^62 (int64 kernels); all "
        "generated instances satisfy it and the check asserts it",
        "expected values come from vf/oracle_bp.objectives (per-bin counts, "
        "areas and a column-wise skyline in plain Python)",
        "feasibility of every packing is established by "
        "vf/oracle_bp.infeasibility before it is evaluated; an infeasible "
        "decoder output would be counted as inconclusive (it is C01's "
        "subject)"],
    "shards": [4, 16],
    "technique": "property-based testing: Hypothesis-generated feasible "
                 "packings (decoded and hand-built) against direct "
                 "definitions of the seven objectives",
    "level_text": "exact agreement of all seven objectives with independent "
                  "definitions, bounds, bin-count conversion and pairwise "
                  "dominance on generated feasible packings",
    "level_note": "trusts the plain-Python definitions in vf/oracle_bp.py; "
                  "products n_items*bin_area below 2^62 only",
}

CLASS_NAMES = {
    "binCount": ("bin_count", "BinCount"),
    "binCountAndLastEmpty": ("bin_count_and_last_empty",
                             "BinCountAndLastEmpty"),
    "binCountAndEmpty": ("bin_count_and_empty", "BinCountAndEmpty"),
    "binCountAndLastSmall": ("bin_count_and_last_small",
                             "BinCountAndLastSmall"),
    "binCountAndSmall": ("bin_count_and_small", "BinCountAndSmall"),
    "binCountAndLastSkyline": ("bin_count_and_last_skyline",
                               "BinCountAndLastSkyline"),
    "binCountAndLowestSkyline": ("bin_count_and_lowest_skyline",
                                 "BinCountAndLowestSkyline"),
}


def make_objectives(inst: Any) -> dict[str, Any]:
    import importlib
    res = {}
    for name in oracle_bp.OBJECTIVES:
        mod, cls = CLASS_NAMES[name]
        m = importlib.import_module(
            f"moptipyapps.binpacking2d.objectives.{mod}")
        res[name] = sut(f"{cls}()", getattr(m, cls), inst)
        require(str(res[name]) == name,
                lambda: f"{cls} calls itself {res[name]!s}")
    return res


def check_objectives(ctx: Ctx, case: dict) -> None:
    ic = case["inst"]
    W, H, items = ic["W"], ic["H"], ic["items"]
    n_items = sum(m for _w, _h, m in items)
    if n_items * W * H >= 2 ** 62:
        raise HarnessError("generator left the stated domain of C02")
    inst = sut("Instance()", gen_bp.build_instance, ic)
    objs = make_objectives(inst)
    bounds = {}
    for name, f in objs.items():
        lb = sut(f"{name}.lower_bound", f.lower_bound)
        ub = sut(f"{name}.upper_bound", f.upper_bound)
        require(type(lb) is int and type(ub) is int and lb <= ub,
                lambda: f"{name}: bounds {lb!r}..{ub!r}")
        bounds[name] = (lb, ub)

    packs: list[tuple[Any, list[list[int]], int, dict, str]] = []
    encoders: dict[int, Any] = {}
    for p in case["packs"]:
        if p["kind"] == "decode":
            if p["enc"] not in encoders:
                encoders[p["enc"]] = gen_bp.make_encoder(inst, p["enc"])
            y = sut("decode", gen_bp.decode, inst, p["x"], p["enc"], 0,
                    encoders[p["enc"]])
            rows = gen_bp.rows_of(y)
            why = oracle_bp.infeasibility(W, H, items, rows, y.n_bins)
            if why:
                ctx.rec.inconc("decoder output infeasible (subject of C01)")
                continue
            how = f"decode{p['enc']}"
        else:
            rows = p["rows"]
            k_rows = max(r[1] for r in rows)
            why = oracle_bp.infeasibility(W, H, items, rows, k_rows)
            if why:
                raise HarnessError(f"generator built an infeasible layout "
                                   f"({p['how']}): {why[:3]}")
            y = gen_bp.build_packing(inst, rows)
            how = p["how"]
        want = oracle_bp.objectives(W, H, rows)
        packs.append((y, rows, want["binCount"], want, how))

    def evaluate_all(idx: int, again: bool) -> dict[str, int]:
        y, rows, k, want, how = packs[idx]
        got = {}
        for name, f in objs.items():
            z = sut(f"{name}.evaluate", f.evaluate, y)
            require(type(z) is int,
                    lambda: f"{name}.evaluate returned {type(z).__name__}")
            require(z == want[name],
                    lambda: f"{name} = {z}, definition gives {want[name]} "
                    f"({'second evaluation, ' if again else ''}{how}, "
                    f"k={k}, bin {W}x{H}, rows={rows[:10]})")
            lb, ub = bounds[name]
            require(lb <= z <= ub,
                    lambda: f"{name} = {z} outside declared bounds "
                    f"[{lb}, {ub}] ({how}, k={k})")
            back = sut(f"{name}.to_bin_count", f.to_bin_count, z)
            require(back == k and isinstance(back, int),
                    lambda: f"{name}.to_bin_count({z}) = {back!r}, the "
                    f"packing has {k} bins ({how})")
            got[name] = z
        return got

    values = [evaluate_all(i, False) for i in range(len(packs))]
    # second round in reverse order: scratch arrays now hold other packings
    for i in reversed(range(len(packs))):
        require(evaluate_all(i, True) == values[i],
                "objective values changed between two evaluations")
    # the packing must not have been modified by evaluating it
    for (y, rows, _k, _w, how) in packs:
        require(gen_bp.rows_of(y) == rows,
                lambda: f"evaluation modified the packing ({how})")

    # the same values and bounds must come out when a result record is
    # assembled for the packing (every generated instance carries the same
    # name, and no cache is handed over)
    if packs:
        from moptipy.evaluation.end_results import EndResult
        from moptipyapps.binpacking2d import packing_result as pres
        y, _rows, k, want, how = packs[-1]
        er = EndResult("algo", inst.name, "binCount", None, 1, k, 1, 0, 1,
                       0, None, None, None)
        rec = sut("from_packing_and_end_result",
                  pres.from_packing_and_end_result, er, y)
        require(dict(rec.objectives) == want, lambda: "result record holds "
                f"the objective values {dict(rec.objectives)}, the packing "
                f"({how}) has {want}")
        ob = dict(rec.objective_bounds)
        for name, (lb, ub) in bounds.items():
            require(ob.get(name + ".lowerBound") == lb
                    and ob.get(name + ".upperBound") == ub,
                    lambda: f"result record holds bounds "
                    f"{ob.get(name + '.lowerBound')}.."
                    f"{ob.get(name + '.upperBound')} for {name}, the "
                    f"objective declares {lb}..{ub}")
        require(rec.bin_bounds.get("bins.lowerBound")
                == inst.lower_bound_bins and rec.n_items == inst.n_items
                and rec.bin_width == W and rec.bin_height == H,
                "result record describes another instance")

    n_pairs = 0
    for a in range(len(packs)):
        for b in range(len(packs)):
            ka, kb = packs[a][2], packs[b][2]
            if ka < kb:
                n_pairs += 1
                for name in oracle_bp.OBJECTIVES:
                    require(values[a][name] < values[b][name],
                            lambda: f"{name}: {ka} bins -> "
                            f"{values[a][name]}, {kb} bins -> "
                            f"{values[b][name]} (not strictly smaller)")

    labels = [f"cls={ic.get('cls', '?')}", f"dtype={inst.dtype.name}",
              f"packings={len(packs)}",
              "pairs=0" if n_pairs == 0 else
              ("pairs=1..2" if n_pairs <= 2 else "pairs>=3")]
    nontrivial = False
    seen: set[str] = set()
    for (_y, rows, k, want, how) in packs:
        summ = oracle_bp.bin_summary(W, rows)
        bins_in_order = [r[1] for r in rows]
        unsorted = k >= 2 and bins_in_order != sorted(bins_in_order)
        hole = any(s["skyline"] > s["area"] for s in summ.values())
        last = summ[max(summ)]
        sparse = k >= 2 and last["count"] == 1 and any(
            s["count"] >= 2 for s in summ.values())
        mins = {
            "count": min(s["count"] for s in summ.values()),
            "area": min(s["area"] for s in summ.values()),
            "skyline": min(s["skyline"] for s in summ.values())}
        for key, tag in (("count", "min_count_not_in_last_bin"),
                         ("area", "min_area_not_in_last_bin"),
                         ("skyline", "min_skyline_not_in_last_bin")):
            if last[key] > mins[key]:
                seen.add(tag)
        if unsorted:
            seen.add("unsorted_rows")
        if hole:
            seen.add("skyline_hole")
        if sparse:
            seen.add("sparse_last_bin")
        seen.add("kind=" + how.split("+")[0])
        seen.add("k=1" if k == 1 else ("k=2..3" if k <= 3 else "k>=4"))
        nontrivial = nontrivial or unsorted or hole
    labels.extend(sorted(seen))
    ctx.rec.label("packings_evaluated", len(packs))
    ctx.rec.label("dominance_pairs", n_pairs)
    ctx.rec.case(case, nontrivial=nontrivial, labels=labels)


@st.composite
def tight_cases(draw: Any) -> dict:
    """Layouts that attain the lower bounds: k-1 bins covered completely by a
    guillotine cut plus a last bin that holds one more copy of the smallest
    item. The area bound then equals k, so every objective sits exactly on
    (or next to) its declared lower bound - the containment clause is tested
    at the boundary, also in int8/int16 storage where item areas exceed the
    storage type."""
    g = draw(gen_bp.guillotine(max_bins=3, max_dim=draw(st.sampled_from(
        [12, 40, 60, 120])), max_depth=3, allow_slack=False))
    W, H, k0 = g["W"], g["H"], g["k"]
    items = [list(it) for it in g["items"]]
    rows = [list(r) for r in g["rows"]]
    tid = min(range(len(items)),
              key=lambda t: (items[t][0] * items[t][1], t))
    w, h = items[tid][0], items[tid][1]
    if w > W or h > H:
        w, h = h, w
    items[tid][2] += 1
    rows.append([tid + 1, k0 + 1, 0, 0, w, h])
    pos = draw(st.integers(0, len(rows) - 1))
    rows.insert(pos, rows.pop())
    inst = {"cls": "tight", "W": W, "H": H, "items": items}
    packs: list[dict] = [{"kind": "rows", "rows": rows, "how": "tight"}]
    x = draw(gen_bp.signed_perm(inst))
    packs.append({"kind": "decode", "enc": draw(st.sampled_from([1, 2])),
                  "x": x})
    return {"inst": inst, "packs": packs}


@st.composite
def huge_area_cases(draw: Any) -> dict:
    """Bins whose area lies between 2^53 and 2^61 (10^10..10^12 wide, 10^4 ..
    3*10^5 high): objective values there are not exactly representable as
    floats. Items are unit-thin so that the constructor stays cheap."""
    W = draw(st.sampled_from([10 ** 10, 3 * 10 ** 11, 10 ** 12 - 1,
                              10 ** 12]))
    H = draw(st.integers(10 ** 4, 3 * 10 ** 5))
    if draw(st.booleans()):
        W, H = H, W
    n = draw(st.integers(2, 4))
    while n * W * H >= 2 ** 62:
        n -= 1
    items: list[list[int]] = []
    for _ in range(n):
        if draw(st.booleans()):
            items.append([draw(st.sampled_from([W, W - 1, 1, draw(
                st.integers(1, W))])), 1, 1])
        else:
            items.append([1, draw(st.sampled_from([H, H - 1, 1, draw(
                st.integers(1, H))])), 1])
    inst = {"cls": "huge_area", "W": W, "H": H, "items": items}
    own = [[t + 1, t + 1, 0, 0, it[0], it[1]] for t, it in enumerate(items)]
    packs: list[dict] = [{"kind": "rows", "rows": own, "how": "own_bin"}]
    for enc in (1, 2):
        packs.append({"kind": "decode", "enc": enc,
                      "x": draw(gen_bp.signed_perm(inst))})
    return {"inst": inst, "packs": packs}


SUBS = {"decoded": check_objectives, "layouts": check_objectives,
        "tight": check_objectives, "huge_area": check_objectives}


def run(ctx: Ctx) -> None:
    ctx.given("decoded",
              gen_bp.objective_case_decoded(
                  max_items=ctx.pick(14, 30), max_types=ctx.pick(6, 8)),
              check_objectives, quick=1000, thorough=16 * 2500)
    ctx.given("layouts",
              gen_bp.objective_case_guillotine(
                  max_bins=ctx.pick(4, 6), max_dim=ctx.pick(40, 60)),
              check_objectives, quick=1000, thorough=16 * 2500)
    ctx.given("tight", tight_cases(), check_objectives, quick=400,
              thorough=16 * 1500)
    ctx.given("huge_area", huge_area_cases(), check_objectives, quick=16,
              thorough=16 * 40, shrink=False)
