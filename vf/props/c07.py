"""C07 - the TTP error count is zero exactly for feasible schedules, equals the
documented per-rule count on mutually consistent plans and stays within
[0, upper_bound()]."""
from __future__ import annotations

import json
import random
from typing import Any

from hypothesis import strategies as st

from vf import gen_ttp, oracle_ttp
from vf.core import Ctx, HarnessError, Violation, require, sut

META = {
    "rule": "four sub-checks. (1) 'plan': plans of 8 families (uniform "
            "entries; circle-method round robins with relabelled teams, "
            "reordered days and drawn orientations; four-round plans with "
            "every day played twice so that all streaks are even; day-wise "
            "arbitrary "
            "matchings; these with overwritten/exchanged entries; with idle "
            "teams; with teams meeting themselves; periodic team columns) "
            "for n in {2,4,6,8}, rounds 1..3 (4 for the doubled family), built "
            "through "
            "GamePlanSpace.create/validate, x constraint settings drawn "
            "from everything the Instance constructor accepts (bundled, "
            "small, free, and settings placed just inside / just outside "
            "the streak and separation ranges the plan needs); the same "
            "Errors object first evaluates another plan so that its scratch "
            "arrays are dirty. A case is non-trivial when the plan is "
            "feasible or is complete and mutually consistent with exactly "
            "one violated rule class; distinct = distinct (n, rounds, "
            "setting, plan). (2) 'bound': the same check on plans biased "
            "towards many errors (periodic columns, self-play, extreme "
            "settings) with hypothesis.target(value/upper_bound). (3) "
            "'climb': deterministic hill climbs "
            "(seed drawn by Hypothesis) towards the largest error count, "
            "every visited plan checked against upper_bound(). (4) 'enum': "
            "complete enumeration of the day-wise consistent four-team "
            "two-round plans (12 assignments per day) in blocks of 12^4 "
            "plans with two fixed leading days; reported in the "
            "sub-reports, one evaluation per block. (5) 'plan_edge': plans for "
            "126/128/130 teams and 126..195 days (storage-type edges of plan "
            "and scratch arrays). (6) 'xml': instances loaded from generated "
            "RobinX XML texts (home and away limits differ, constraints in "
            "either order) must carry the declared limits and judge plans by "
            "them",
    "assumptions": [
        "feasibility and the per-rule count are judged by "
        "vf/oracle_ttp.py (pure Python, no code of the package); the "
        "table-driven enumeration oracle is cross-checked against the "
        "scalar oracle on every 997th plan while it runs",
        "value == documented count is required only for complete, mutually "
        "consistent plans; for all other plans only value > 0 and value <= "
        "upper_bound()",
        "quick tier enumerates the 12^5 slice with the first day fixed for "
        "two settings; the thorough tier all 12^6 plans for 9 settings"],
    "shards": [4, 16],
    "technique": "property-based testing: Hypothesis-generated game plans "
                 "and constraint settings, target()-driven and hill-climbing "
                 "search for the bound, complete enumeration of the 12^6 "
                 "day-wise consistent four-team plans, against an "
                 "independent feasibility checker and per-rule error count",
    "level_text": "generated and exhaustively enumerated plans compared "
                  "with an independent reference model; exhaustive only "
                  "inside the enumerated four-team sub-domain",
    "level_note": "trusts vf/oracle_ttp.py as the reading of the documented "
                  "counting rule; plans with byes or inconsistent entries "
                  "are only checked for value > 0 and the bound",
}

ENUM_N, ENUM_ROUNDS = 4, 2
BUNDLED = [1, 3, 1, 3, 1, 6]
ENUM_SETTINGS_QUICK = [BUNDLED, [2, 3, 2, 3, 1, 6]]
# feasible plans among the 12^6: 1920 / 0 / 288 / 384 / 2688 / ... - with a
# streak minimum >= 2 a four-team double round robin has no feasible plan
# (3 home games cannot be split into two runs, equal patterns never meet)
ENUM_SETTINGS_THOROUGH = [
    BUNDLED, [2, 3, 2, 3, 1, 6], [1, 2, 1, 2, 1, 6], [1, 3, 1, 3, 2, 6],
    [1, 6, 1, 6, 0, 2], [1, 3, 1, 3, 0, 6], [1, 2, 1, 3, 1, 3],
    [2, 6, 1, 3, 0, 6], [3, 6, 3, 6, 0, 6]]


# ----------------------------------------------------------------------------
# one plan
# ----------------------------------------------------------------------------

def _objects(case: dict) -> tuple[Any, Any, Any]:
    from moptipyapps.ttp.errors import Errors
    from moptipyapps.ttp.game_plan_space import GamePlanSpace
    inst = sut("ttp.Instance()", gen_ttp.build_instance, case)
    space = sut("GamePlanSpace()", GamePlanSpace, inst)
    obj = sut("Errors()", Errors, inst)
    return inst, space, obj


def _pre_plan(case: dict) -> list[list[int]] | None:
    """The plan evaluated first with the same objective object."""
    n, plan, pre = case["n"], case["plan"], case.get("pre", 0)
    if pre == 1:
        return [[n] * n for _ in plan]          # largest home counts
    if pre == 2:
        return [[-v for v in row] for row in reversed(plan)]
    if pre == 3:
        return [[((d + t) % n) + 1 for t in range(n)]
                for d in range(len(plan))]       # all pairings "met"
    return None


def classify(plan: list[list[int]], n: int, rounds: int, sett: tuple,
             reasons: list[str]) -> tuple[str, dict[str, int] | None]:
    """(class label, per-rule counts or None)."""
    if not reasons:
        return "feasible", oracle_ttp.rule_counts(plan, n, rounds, sett)
    tg = oracle_ttp.tags(reasons)
    if "bye" in tg or "inconsistent" in tg:
        if oracle_ttp.self_play(plan):
            return "selfplay", None
        if "bye" in tg and "inconsistent" not in tg:
            return "bye_only", None
        return ("bye+inconsistent" if "bye" in tg else "inconsistent"), None
    counts = oracle_ttp.rule_counts(plan, n, rounds, sett)
    bad = [r for r, v in counts.items() if v]
    if len(bad) == 1:
        return f"one_rule:{bad[0]}", counts
    return "multi_rule", counts


def check_bound(ctx: Ctx, case: dict) -> None:
    """The plan check, steering Hypothesis towards value/upper_bound = 1."""
    check_plan(ctx, case, use_target=True)


def check_plan(ctx: Ctx, case: dict, use_target: bool = False) -> None:
    n, rounds, plan = case["n"], case["rounds"], case["plan"]
    sett = tuple(case["st"])
    inst, space, obj = _objects(case)
    y = gen_ttp.build_plan(inst, plan, space)
    sut("GamePlanSpace.validate", space.validate, y)
    ub = sut("Errors.upper_bound", obj.upper_bound)
    lb = sut("Errors.lower_bound", obj.lower_bound)
    require(lb == 0, f"lower_bound() is {lb}")
    pre = _pre_plan(case)
    if pre is not None:
        sut("Errors.evaluate", obj.evaluate,
            gen_ttp.build_plan(inst, pre, space))
    v = sut("Errors.evaluate", obj.evaluate, y)
    require(int(v) == v, f"value {v!r} is not an integer")
    v = int(v)
    v2 = int(sut("Errors.evaluate", obj.evaluate, y))
    require(v == v2, f"evaluate is not a function of the plan: {v} after "
            f"another plan, {v2} when repeated")
    require(v >= 0, f"negative error count {v}")
    require(v <= ub, lambda: f"error count {v} exceeds upper_bound() = {ub} "
            f"(n={n}, rounds={rounds}, setting={list(sett)}, plan={plan})")
    if use_target:
        _target(v / ub if ub > 0 else 0.0)
    reasons = oracle_ttp.infeasibility(plan, n, rounds, sett)
    if reasons and oracle_ttp.tags(reasons) == {"shape"}:
        raise HarnessError(f"generator produced a malformed plan: {case}")
    require((v == 0) == (not reasons), lambda: (
        f"error count {v} but the plan is "
        f"{'feasible' if not reasons else 'infeasible: ' + str(reasons[:4])}"
        f" (setting={list(sett)})"))
    cls, counts = classify(plan, n, rounds, sett, reasons)
    if counts is not None:
        want = sum(counts.values())
        require(v == want, lambda: f"error count {v}, documented per-rule "
                f"count {want} = {counts} (setting={list(sett)})")
    bye_checked = False
    if counts is None and not oracle_ttp.inconsistencies(plan) \
            and not oracle_ttp.self_play(plan) \
            and not oracle_ttp.is_complete(plan):
        # consistent plan with idle days: the documented count is defined
        # when the separation limits are vacuous - same streak limits,
        # separation 0..maximum, same plan
        st2 = (*sett[:4], 0, rounds * n - 1)
        inst2 = sut("ttp.Instance()", gen_ttp.build_instance,
                    {**case, "st": list(st2)})
        from moptipyapps.ttp.errors import Errors as _Errors
        v3 = int(sut("Errors.evaluate", _Errors(inst2).evaluate,
                     gen_ttp.build_plan(inst2, plan)))
        c3 = oracle_ttp.rule_counts_with_byes(plan, n, rounds, st2)
        require(v3 == sum(c3.values()), lambda: f"consistent plan with idle "
                f"days: error count {v3}, documented count {c3} (setting "
                f"{list(st2)}, plan {plan})")
        bye_checked = True
    labels = [f"n={n}", f"rounds={rounds}", f"gen={case.get('cls', '?')}",
              f"plan:{cls}", _ratio_label(v, ub)]
    if bye_checked:
        labels.append("bye_count_checked")
    if counts is not None:
        labels.extend(f"rule:{r}" for r, c in counts.items() if c)
    if list(sett) == gen_ttp.bundled_setting(n, rounds):
        labels.append("st:bundled")
    if sett[0] >= 2 or sett[2] >= 2:
        labels.append("st:streak_min>=2")
    if sett[4] == 0:
        labels.append("st:sep_min=0")
    if sett[4] >= 2:
        labels.append("st:sep_min>=2")
    if sett[5] < (n - 1) * rounds - 2:
        labels.append("st:sep_max_binding")
    if pre is not None:
        labels.append("dirty_scratch")
    if cls == "feasible" and (sett[0] >= 2 or sett[2] >= 2):
        labels.append("feasible&streak_min>=2")
    if cls == "feasible" and list(sett) != gen_ttp.bundled_setting(n, rounds):
        labels.append("feasible&other_setting")
    if oracle_ttp.self_play(plan):
        labels.append("self_play")
        if any(t == n - 1 for _d, t in oracle_ttp.self_play(plan)):
            labels.append("self_play_last_team")
    ctx.rec.case(case, labels=labels, nontrivial=(
        cls == "feasible" or cls.startswith("one_rule")))


def _ratio_label(v: int, ub: int) -> str:
    r = v / ub if ub > 0 else 0.0
    for lim in (0.9, 0.7, 0.5, 0.3, 0.1):
        if r >= lim:
            return f"value/bound>={lim}"
    return "value/bound<0.1"


def _target(score: float) -> None:
    import hypothesis
    if hypothesis.currently_in_test_context():
        hypothesis.target(float(score), label="errors/upper_bound")


# ----------------------------------------------------------------------------
# hill climb for the bound clause
# ----------------------------------------------------------------------------

def check_climb(ctx: Ctx, case: dict) -> None:
    """Maximise the error count from the drawn start plan; every visited plan
    must stay within [0, upper_bound()]. All randomness comes from
    ``random.Random(case["seed"])``."""
    n, rounds = case["n"], case["rounds"]
    sett = list(case["st"])
    inst, space, obj = _objects(case)
    ub = int(sut("Errors.upper_bound", obj.upper_bound))
    y = gen_ttp.build_plan(inst, case["plan"], space)
    days = y.shape[0]
    rng = random.Random(case["seed"])
    evaluate = obj.evaluate

    def value() -> int:
        v = int(sut("Errors.evaluate", evaluate, y))
        if not 0 <= v <= ub:
            w = {"n": n, "rounds": rounds, "st": sett, "cls": "climb",
                 "plan": gen_ttp.plan_of(y), "pre": 0}
            raise Violation(
                f"error count {v} outside [0, upper_bound()={ub}]; witness "
                f"(sub 'plan'): {json.dumps(w, separators=(',', ':'))}")
        return v

    cur = value()
    best = cur
    for _ in range(int(case["steps"])):
        move = rng.randrange(4)
        if move == 0:      # one entry
            d, t = rng.randrange(days), rng.randrange(n)
            old = [(d, t, int(y[d, t]))]
            y[d, t] = rng.randint(-n, n)
        elif move == 1:    # constant column
            t = rng.randrange(n)
            old = [(d, t, int(y[d, t])) for d in range(days)]
            y[:, t] = rng.randint(-n, n)
        elif move == 2:    # copy a day
            a, b = rng.randrange(days), rng.randrange(days)
            old = [(b, t, int(y[b, t])) for t in range(n)]
            y[b, :] = y[a, :]
        else:              # two entries
            old = []
            for _k in range(2):
                d, t = rng.randrange(days), rng.randrange(n)
                old.append((d, t, int(y[d, t])))
                y[d, t] = rng.randint(-n, n)
        v = value()
        if v >= cur:
            cur = v
            best = max(best, v)
        else:
            for d, t, o in reversed(old):
                y[d, t] = o
    _target(best / ub if ub > 0 else 0.0)
    ctx.rec.case(case, nontrivial=best > 0,
                 labels=[f"climb:n={n}", f"climb:rounds={rounds}",
                         "climb:" + _ratio_label(best, ub)])


# ----------------------------------------------------------------------------
# complete enumeration of the day-wise consistent four-team plans
# ----------------------------------------------------------------------------

_ENUM_CACHE: dict[tuple, oracle_ttp.Enum4] = {}


def _enum(sett: tuple) -> oracle_ttp.Enum4:
    """Tables are a pure function of the setting (cached per process)."""
    e = _ENUM_CACHE.get(sett)
    if e is None:
        e = _ENUM_CACHE[sett] = oracle_ttp.Enum4(ENUM_N, ENUM_ROUNDS, sett)
    return e


def _stats(ctx: Ctx, sett: tuple) -> dict:
    allst = ctx.__dict__.setdefault("_c07_enum", {})
    return allst.setdefault(sett, {"plans": 0, "feasible": 0, "zero": 0,
                                   "bits": {}, "blocks": 0, "crosschecked": 0})


def check_enum(ctx: Ctx, case: dict) -> None:
    """All 12^4 plans that start with the two day assignments ``prefix``."""
    import numpy as np
    sett = tuple(case["st"])
    k0, k1 = case["prefix"]
    en = _enum(sett)
    icase = {"n": ENUM_N, "rounds": ENUM_ROUNDS, "st": list(sett)}
    inst, space, obj = _objects(icase)
    ub = int(obj.upper_bound())
    y = space.create()
    rows = np.array(en.rows, dtype=y.dtype)
    nrow = len(en.rows)
    code, ev, evaluate = en.code, en.eval_code, obj.evaluate
    stt = _stats(ctx, sett)
    bits_hist: dict[int, int] = stt["bits"]
    plans = feas = zero = 0
    bad: list[tuple[int, ...]] = []
    y[0] = rows[k0]
    y[1] = rows[k1]
    c1 = code[0][k0] | code[1][k1]
    c5s = code[5]
    rng = range(nrow)
    for k2 in rng:
        y[2] = rows[k2]
        c2 = c1 | code[2][k2]
        for k3 in rng:
            y[3] = rows[k3]
            c3 = c2 | code[3][k3]
            for k4 in rng:
                y[4] = rows[k4]
                c4 = c3 | code[4][k4]
                for k5 in rng:
                    y[5] = rows[k5]
                    v = evaluate(y)
                    tot, bits, ok = ev(c4 | c5s[k5])
                    plans += 1
                    if ok:
                        feas += 1
                    if v == 0:
                        zero += 1
                    bits_hist[bits] = bits_hist.get(bits, 0) + 1
                    if v != tot or (v == 0) != ok or not 0 <= v <= ub:
                        bad.append((k0, k1, k2, k3, k4, k5))
                    if plans % 997 == 0:
                        _crosscheck(en, (k0, k1, k2, k3, k4, k5), tot, bits,
                                    ok)
                        stt["crosschecked"] += 1
    stt["plans"] += plans
    stt["feasible"] += feas
    stt["zero"] += zero
    stt["blocks"] += 1
    stt["bad"] = stt.get("bad", 0) + len(bad)
    if bad and stt["bad"] == len(bad):
        # first failing block of this setting in this shard: report single
        # plans (replayable with sub-check 'plan'); later blocks only count
        alone = 0
        for idx in bad[:1]:
            pcase = dict(icase, cls="enum", plan=en.plan(idx), pre=0)
            try:
                check_plan(ctx, pcase)
            except Violation as vio:
                alone += 1
                ctx.violation("plan", pcase, str(vio))
        if alone == 0:
            raise Violation(
                f"{len(bad)} plans of the block evaluate differently inside "
                f"the enumeration than alone (state leaks between calls), "
                f"first: {en.plan(bad[0])}")
    ctx.rec.case(case, nontrivial=True,
                 labels=["enum_block", f"enum_st={list(sett)}"])


def _crosscheck(en: oracle_ttp.Enum4, idx: tuple, tot: int, bits: int,
                ok: bool) -> None:
    """Table oracle == scalar oracle (a disagreement is a harness error)."""
    plan = en.plan(idx)
    counts = oracle_ttp.rule_counts(plan, en.n, en.rounds, en.st)
    why = oracle_ttp.infeasibility(plan, en.n, en.rounds, en.st)
    if sum(counts.values()) != tot or (not why) != ok or \
            set(oracle_ttp.rule_names(bits)) != {r for r, c in counts.items()
                                                 if c} or \
            (tot == 0) != ok:
        raise HarnessError(f"enumeration tables disagree with the scalar "
                           f"oracle on {plan}: {tot},{bits},{ok} vs "
                           f"{counts},{why}")


def enum_blocks(settings: list[list[int]], first_days: list[int]
                ) -> list[dict]:
    return [{"st": s, "prefix": [k0, k1]} for s in settings
            for k0 in first_days for k1 in range(12)]


def _report_enum(ctx: Ctx, first_days: list[int]) -> None:
    for sett, stt in sorted(ctx.__dict__.get("_c07_enum", {}).items()):
        single = {}
        multi = 0
        for bits, cnt in stt["bits"].items():
            names = oracle_ttp.rule_names(bits)
            if len(names) == 1:
                single[names[0]] = single.get(names[0], 0) + cnt
            elif len(names) > 1:
                multi += cnt
        scope = "all 12^6 plans" if len(first_days) == 12 else \
            f"12^5 plans with first day in {first_days}"
        ctx.rec.subreport(
            "enum4 setting=" + ",".join(map(str, sett)),
            exhaustive=True, domain=f"n=4, rounds=2, day-wise consistent "
            f"complete plans, {scope} (summed over shards)",
            plans=stt["plans"], feasible=stt["feasible"],
            zero_error_plans=stt["zero"], blocks=stt["blocks"],
            exactly_one_rule_violated=single, several_rules_violated=multi,
            crosschecked_with_scalar_oracle=stt["crosschecked"],
            plans_violating_the_property=stt.get("bad", 0))


@st.composite
def xml_cases(draw: Any) -> dict:
    """A RobinX XML text that declares a generated constraint setting (home
    and away limits different, in either order) plus a plan to evaluate."""
    n = draw(st.sampled_from([4, 4, 6]))
    rounds = 2
    sett = draw(gen_ttp.small_setting(n, rounds))
    cls = draw(st.sampled_from(["circle", "circle", "daywise", "perturbed"]))
    plan = draw(gen_ttp.plans_of_class(cls, n, rounds))
    dm = draw(gen_ttp.dist_matrices(n, rounds))
    return {"n": n, "rounds": rounds, "st": sett, "cls": "xml:" + cls,
            "plan": plan, "pre": 0, "dist": dm["dist"],
            "away_first": draw(st.booleans()),
            "se_first": draw(st.booleans())}


def robinx_xml(case: dict) -> str:
    n, sett, dist = case["n"], case["st"], case["dist"]
    hmin, hmax, amin, amax, smin, smax = sett
    ca = [f'<CA3 intp="4" max="{hmax}" min="{hmin}" mode1="H" mode2="GAMES" '
          'penalty="1" teamGroups1="0" teamGroups2="0" type="HARD"/>',
          f'<CA3 intp="4" max="{amax}" min="{amin}" mode1="A" mode2="GAMES" '
          'penalty="1" teamGroups1="0" teamGroups2="0" type="HARD"/>']
    if case["away_first"]:
        ca.reverse()
    se = (f'<SeparationConstraints><SE1 max="{smax}" min="{smin}" '
          'penalty="1" teamGroups="0" type="HARD"/></SeparationConstraints>')
    cap = "<CapacityConstraints>" + "".join(ca) + "</CapacityConstraints>"
    cons = (se + cap) if case["se_first"] else (cap + se)
    dd = "".join(f'<distance dist="{dist[i][j]}" team1="{i}" team2="{j}"/>'
                 for i in range(n) for j in range(n))
    teams = "".join(f'<team id="{i}" league="0" name="T{i + 1}" '
                    'teamGroups="0"/>' for i in range(n))
    return ('<?xml version="1.0" encoding="UTF-8" standalone="no"?>'
            "<Instance><MetaData><InstanceName>GEN</InstanceName></MetaData>"
            '<Structure><Format leagueIds="0"><numberRoundRobin>2'
            "</numberRoundRobin><compactness>C</compactness></Format>"
            "</Structure><Data><Distances>" + dd + "</Distances></Data>"
            "<Resources><Teams>" + teams + "</Teams></Resources>"
            "<Constraints>" + cons + "</Constraints></Instance>")


def check_xml(ctx: Ctx, case: dict) -> None:
    """An instance loaded from a RobinX file carries the limits the file
    declares, and the error count judges plans by exactly these limits."""
    import io

    from moptipyapps.ttp.errors import Errors
    from moptipyapps.ttp.game_plan_space import GamePlanSpace
    from moptipyapps.ttp.instance import _from_stream
    n, rounds, plan = case["n"], case["rounds"], case["plan"]
    sett = tuple(case["st"])
    inst = sut("ttp _from_stream", _from_stream,
               io.StringIO(robinx_xml(case)))
    got = (inst.home_streak_min, inst.home_streak_max, inst.away_streak_min,
           inst.away_streak_max, inst.separation_min, inst.separation_max)
    require(inst.n_cities == n and inst.rounds == rounds,
            f"loaded n={inst.n_cities}, rounds={inst.rounds}")
    require(got == sett, lambda: f"the file declares the limits {list(sett)}"
            f" (home min/max, away min/max, separation min/max) but the "
            f"instance has {list(got)}")
    require([[int(v) for v in row] for row in inst] == case["dist"],
            "loaded distance matrix differs from the file")
    space = GamePlanSpace(inst)
    y = gen_ttp.build_plan(inst, plan, space)
    v = int(sut("Errors.evaluate", Errors(inst).evaluate, y))
    reasons = oracle_ttp.infeasibility(plan, n, rounds, sett)
    require((v == 0) == (not reasons), lambda: f"error count {v} under the "
            f"declared limits {list(sett)} but the plan is "
            f"{'feasible' if not reasons else 'infeasible: ' + str(reasons[:3])}")
    cls, counts = classify(plan, n, rounds, sett, reasons)
    if counts is not None:
        require(v == sum(counts.values()), lambda: f"error count {v}, "
                f"per-rule count {counts} under the declared limits")
    ctx.rec.case(case, nontrivial=(sett[0:2] != sett[2:4]), labels=[
        "xml", "xml:home!=away" if sett[0:2] != sett[2:4]
        else "xml:home==away", f"plan:{cls}"])


EDGE_SIZES = ((126, 1), (128, 1), (130, 1), (64, 2), (66, 2), (66, 3))

SUBS = {"xml": check_xml, "plan_edge": check_plan, "plan": check_plan, "bound": check_bound, "climb": check_climb,
        "enum": check_enum}


def run(ctx: Ctx) -> None:
    first_days = list(range(12)) if ctx.thorough else [0]
    settings = ENUM_SETTINGS_THOROUGH if ctx.thorough else ENUM_SETTINGS_QUICK
    ctx.each("enum", ctx.my_share(enum_blocks(settings, first_days)),
             check_enum)
    if not ctx.warm:
        _report_enum(ctx, first_days)
    # team / day counts around the int8/int16 edge of the plan storage type
    # (-n..n) and of the scratch arrays (day numbers)
    ctx.given("plan_edge", gen_ttp.plan_cases(
        sizes=EDGE_SIZES, classes=("circle", "circle", "perturbed", "bye",
                                   "selfplay")), check_plan,
        quick=10, thorough=16 * 10, shrink=False)
    ctx.given("xml", xml_cases(), check_xml, quick=150, thorough=16 * 600)
    ctx.given("plan", gen_ttp.plan_cases(), check_plan,
              quick=6000, thorough=16 * 10000)
    ctx.given("bound", gen_ttp.bound_cases(), check_bound,
              quick=1500, thorough=16 * 3000)
    ctx.given("climb", gen_ttp.climb_cases(), check_climb,
              quick=400, thorough=16 * 1500)
