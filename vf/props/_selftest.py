"""Self-test of the history driver (not a property check)."""
from hypothesis import strategies as st
from vf.core import Ctx, Violation, require
from vf.stateful import make_machine, replay_history

META = {"rule": "selftest", "shards": [1, 2]}

class Ex:
    def __init__(self, ctx, init):
        self.ctx = ctx; self.total = init["start"]; self.n = 0
    def apply(self, op):
        self.total += op["add"]; self.n += 1
        require(self.total < 50 or not self.ctx.fail_on, f"total {self.total} too large")
    def finish(self):
        self.ctx.rec.case({"t": self.total, "n": self.n}, nontrivial=self.n > 2)

SUBS = {"hist": replay_history(Ex)}

def run(ctx):
    import os
    ctx.fail_on = os.environ.get("SELFTEST_FAIL") == "1"
    M = make_machine(Ex, st.fixed_dictionaries({"start": st.integers(0, 5)}),
                     lambda ex: st.fixed_dictionaries({"add": st.integers(0, 20)}))
    ctx.state_machine("hist", M, quick=50, thorough=200, steps=10)
