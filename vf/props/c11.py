"""C11 - the controller figure of merit is a pure function of the parameters."""
from __future__ import annotations

import math
import warnings
from typing import Any

import numpy as np

from vf import gen_dc
from vf.core import Ctx, Violation, canon, require
from vf.stateful import make_machine, replay_history

META = {
    "rule": "one case = one history on one objective object: initial choice "
            "(Stuart-Landau | Lorenz | three oscillators, rebuilt through "
            "the public System constructor with the bundled equations and "
            "the 4 bundled training states, training_steps 10..40, "
            "training_time 0.5..5) x every bundled controller blueprint of "
            "its dimension x {FigureOfMerit, FigureOfMeritLE} x "
            "supports_model_mode, then up to 12 (quick, 60 histories) / 25 (thorough) "
            "operations drawn from evaluate(x) with x from [-32,32]^n "
            "(uniform, near zero, small, corners, unit vectors, integers), "
            "evaluate(a previously used x), initialize(), set_model(m) with "
            "m a generated linear map of (state, control), set_raw(), "
            "get_differentials(). A history is non-trivial when it has >= 2 "
            "distinct parameter vectors, a model-mode episode containing an "
            "evaluation, and a raw evaluation after it; distinct = distinct "
            "histories. surrogate_run: SurrogateOptimizer (random sampling "
            "sub-algorithms, 2-3 warm-up FEs, 1-2 model iterations, fancy "
            "logs on/off, log file on/off) toggles the objective itself; "
            "afterwards the same object and a fresh one are compared with "
            "the recomputed real-system values, and initialize(); "
            "evaluate(x); get_differentials() with the rows of that one "
            "evaluation; non-trivial = at least one model iteration",
    "assumptions": [
        "the mirror model is plain Python: mode (raw | model), list of "
        "collected blocks; it is updated only from the documented meaning "
        "of the operations",
        "per-training-case figures of merit are recomputed with "
        "j_from_ode(run_ode(...)) of the package (their correctness is "
        "property C10) on the very same starting-state arrays; the "
        "combination (mean | expm1(mean(log1p))) is recomputed with "
        "math.fsum, relative tolerance 1e-12",
        "values returned by the object under test are compared bit-equal "
        "with a freshly constructed objective (put into the same model "
        "mode when the history is in model mode)",
        "collected differentials are compared exactly (array equality) with "
        "the concatenation of diff_from_ode blocks of the recomputed "
        "simulations of all raw-mode evaluations since the last "
        "initialize(), including the blocks of the training cases that "
        "preceded a failing one",
        "get_differentials() while nothing is collected may raise "
        "ValueError or return zero rows; set_model / get_differentials "
        "without supports_model_mode raise ValueError: counted as clean "
        "rejection, the mirror model is unchanged",
        "cost limit (deterministic work budget, not a time limit): high-gain "
        "and discontinuous controllers make RK45 chatter for minutes, so an "
        "evaluate(x) whose reference simulation invokes the controller more "
        "than 30 000 times is skipped before the object under test sees it "
        "and counted (label evaluate_skipped_work_limit); parameter vectors "
        "are drawn mostly from [-4,4]^n, near zero and small ranges and "
        "sometimes from the full box [-32,32]^n; 4 training states",
        "the controller blueprint is handed to the Instance through the "
        "public Controller constructor, wrapped by a call counter"],
    "thorough_scale": 2,
    "shards": [4, 16],
    "technique": "property-based testing of histories: Hypothesis "
                 "rule-based state machine against a Python mirror model "
                 "and freshly constructed objectives",
    "level_text": "on all generated interleavings of evaluate / initialize "
                  "/ set_model / set_raw / get_differentials the objective "
                  "returned the value of a fresh objective, the documented "
                  "combination of per-case figures of merit, and exactly "
                  "the differentials of its raw-mode evaluations",
    "level_note": "per-case simulation and figure of merit are taken from "
                  "the package (checked by C10); small training budgets",
}


WORK_LIMIT = 30_000  # controller invocations per evaluate(x)

#: memo of deterministic reference computations (expected value, per-case J,
#: diff blocks, value of a fresh objective), keyed by the canonical JSON of
#: (set-up, surrogate model or None, x). Pure function results only: it makes
#: repeated x and the replays of Hypothesis' shrinker cheap and carries no
#: information from one case to another.
_MEMO: dict[str, Any] = {}


def _combine(cls: str, js: list[float]) -> float:
    if cls == "FigureOfMerit":
        return math.fsum(js) / len(js)
    return math.expm1(math.fsum(math.log1p(j) for j in js) / len(js))


class ObjectiveHistory:
    """Executor: the object under test plus the mirror model."""

    def __init__(self, ctx: Ctx, init: dict) -> None:
        warnings.simplefilter("ignore")
        self.ctx = ctx
        self.init = init
        self.inst = gen_dc.build_instance_dc(init)
        self.counter = self.inst.work_counter
        self.dead = False
        self.skipped = 0
        self.system = self.inst.system
        self.training = self.system.training_starting_states
        self.training_bytes = self.training.tobytes()
        try:
            self.f = gen_dc.build_objective(init)
        except Exception as exc:  # noqa: BLE001
            raise Violation(f"objective constructor raised "
                            f"{type(exc).__name__}: {exc}") from exc
        self.smm = bool(init["smm"])
        # mirror
        self.mode = "raw"
        self.model_spec: Any = None
        self.model: Any = None
        self.blocks: list[tuple[np.ndarray, np.ndarray]] = []
        # bookkeeping
        self.used: list[tuple[float, ...]] = []
        self.n_eval = {"raw": 0, "model": 0}
        self.n_fail = 0
        self.model_eval_seen = False
        self.raw_after_model = False
        self.rejections = 0
        self.ops = 0

    # -- helpers -------------------------------------------------------------
    def _sut(self, what: str, fn: Any, *args: Any,
             allowed: tuple = ()) -> Any:
        try:
            with np.errstate(all="ignore"):
                return fn(*args)
        except allowed:
            raise
        except Exception as exc:  # noqa: BLE001
            raise Violation(f"{what} raised {type(exc).__name__}: "
                            f"{exc}") from exc

    def _reference(self, x: np.ndarray, equations: Any) \
            -> tuple[float, list[float], list[tuple]]:
        """(expected value, per-case J, diff blocks of the completed cases)
        from the documented behaviour."""
        from moptipyapps.dynamic_control.ode import (
            diff_from_ode,
            j_from_ode,
            run_ode,
        )
        s = self.system
        n = s.state_dims
        js: list[float] = []
        blocks: list[tuple] = []
        ctrl = self.inst.controller
        with np.errstate(all="ignore"):
            for start in self.training:
                ode = run_ode(start, equations, ctrl.controller, x,
                              ctrl.control_dims, s.training_steps,
                              s.training_time)
                j = float(j_from_ode(ode, n, s.state_dims_in_j, s.gamma))
                js.append(j)
                if not 0.0 <= j <= 1e100:
                    return 1e200, js, blocks
                sc, df = diff_from_ode(ode, n)
                blocks.append((np.array(sc), np.array(df)))
        z = _combine(self.init["cls"], js)
        return (z if 0.0 <= z <= 1e100 else 1e200), js, blocks

    def _fresh_value(self, x: np.ndarray) -> float:
        g = gen_dc.build_objective(self.init)
        if self.mode == "model":
            g.set_model(gen_dc.build_surrogate(self.model_spec, g))
        with np.errstate(all="ignore"):
            return g.evaluate(x.copy())

    def _budget(self, limit: Any) -> None:
        self.counter.n = 0
        self.counter.limit = limit

    def _check_training(self, what: str) -> None:
        require(self.training.tobytes() == self.training_bytes,
                f"{what} modified the training starting states")

    # -- operations ----------------------------------------------------------
    def apply(self, op: dict) -> None:
        if self.dead:
            return
        self.ops += 1
        kind = op["op"]
        if kind == "evaluate":
            try:
                self._evaluate(op)
            except gen_dc.WorkLimit:
                # the object under test did much more work than the
                # reference simulation of the same x: its state is undefined
                self.dead = True
                self.ctx.rec.inconc("work_limit_inside_object")
                return
            finally:
                self._budget(None)
        elif kind == "initialize":
            self._sut("initialize()", self.f.initialize)
            self.blocks = []
            self.mode = "raw"
        elif kind == "set_raw":
            self._sut("set_raw()", self.f.set_raw)
            self.mode = "raw"
        elif kind == "set_model":
            model = gen_dc.build_surrogate(op["model"], self.f)
            try:
                self._sut("set_model()", self.f.set_model, model,
                          allowed=(ValueError,))
            except ValueError:
                require(not self.smm, "set_model raised ValueError although "
                        "supports_model_mode=True")
                self.rejections += 1
            else:
                require(self.smm, "set_model accepted without "
                        "supports_model_mode")
                self.mode = "model"
                self.model_spec = op["model"]
                self.model = model
        elif kind == "get_differentials":
            self._get_differentials()
        else:
            raise ValueError(kind)
        self._check_training(kind)

    def _evaluate(self, op: dict) -> None:
        x = np.array(op["x"], dtype=float)
        xb = x.tobytes()
        equations = self.system.equations if self.mode == "raw" \
            else self.model
        # 1. reference simulation under the work budget: an x that needs more
        #    is outside the generated domain (skipped, counted, the object
        #    under test never sees it)
        key = canon([self.init, self.model_spec if self.mode == "model"
                     else None, op["x"]])
        memo = _MEMO.get(key)
        if memo is None:
            self._budget(WORK_LIMIT)
            try:
                memo = [*self._reference(x, equations), None]
            except gen_dc.WorkLimit:
                memo = "skip"
            if len(_MEMO) > 4000:
                _MEMO.clear()
            _MEMO[key] = memo
        if memo == "skip":
            self.skipped += 1
            self.ctx.rec.label("evaluate_skipped_work_limit")
            return
        want, js, blocks = memo[0], memo[1], memo[2]
        # 2. the object under test, then a fresh object
        self._budget(4 * WORK_LIMIT)
        got = self._sut("evaluate(x)", self.f.evaluate, x)
        require(x.tobytes() == xb, "evaluate modified the parameter vector")
        require(isinstance(got, float), f"evaluate returned {type(got)}")
        require(got == 1e200 or 0.0 <= got <= 1e100,
                f"evaluate returned {got!r}: neither in [0, 1e100] nor the "
                "failure value 1e200")
        if memo[3] is None:
            self._budget(4 * WORK_LIMIT)
            memo[3] = self._fresh_value(x)
        fresh = memo[3]
        require(got == fresh, lambda: (
            f"{self.mode}-mode evaluate returned {got!r} but a freshly "
            f"constructed objective returns {fresh!r} for the same x (step "
            f"{self.ops}, {self.n_eval} evaluations before)"))
        if want == 1e200:
            require(got == 1e200, lambda: f"per-case figures of merit {js} "
                    f"call for the failure value 1e200, got {got!r}")
        else:
            require(got != 1e200 and abs(got - want) <= 1e-12 * abs(want),
                    lambda: f"evaluate returned {got!r}; the "
                    f"{self.init['cls']} combination of the per-case figures "
                    f"of merit {js} is {want!r}")
        if self.mode == "raw":
            if self.smm:
                self.blocks.extend(blocks)
            if self.model_eval_seen:
                self.raw_after_model = True
        else:
            self.model_eval_seen = True
        self.n_eval[self.mode] += 1
        if got == 1e200:
            self.n_fail += 1
            self.ctx.rec.label(f"evaluations_1e200_{self.mode}"
                               + ("_faulty_system" if self.init.get("fault")
                                  else ""))
            if self.mode == "raw" and self.smm and blocks:
                self.ctx.rec.label("evaluations_1e200_with_partial_blocks")
        key = tuple(op["x"])
        if key not in self.used:
            self.used.append(key)

    def _get_differentials(self) -> None:
        rows = sum(len(b[0]) for b in self.blocks)
        try:
            res = self._sut("get_differentials()", self.f.get_differentials,
                            allowed=(ValueError,))
        except ValueError:
            # clean rejection: no model mode, or nothing to hand out
            require(not self.smm or rows == 0, lambda: (
                "get_differentials raised ValueError although "
                f"{len(self.blocks)} blocks ({rows} rows) were collected"))
            self.rejections += 1
            return
        require(self.smm, "get_differentials returned data without "
                "supports_model_mode")
        require(isinstance(res, tuple) and len(res) == 2,
                "get_differentials did not return a pair")
        got_sc, got_df = np.asarray(res[0]), np.asarray(res[1])
        if rows == 0:
            require(len(got_sc) == 0 and len(got_df) == 0, lambda: (
                f"get_differentials returned {len(got_sc)} rows although no "
                "raw-mode evaluation completed a training case since the "
                "last initialize()"))
            return
        sc = np.concatenate([b[0] for b in self.blocks])
        df = np.concatenate([b[1] for b in self.blocks])
        require(got_sc.shape == sc.shape and got_df.shape == df.shape,
                lambda: f"collected differentials have shapes {got_sc.shape} "
                f"/ {got_df.shape}; the raw-mode evaluations since the last "
                f"initialize() produced {sc.shape} / {df.shape} "
                f"({len(self.blocks)} blocks, mode now {self.mode})")
        require(np.array_equal(got_sc, sc) and np.array_equal(got_df, df),
                "collected differentials differ from the diff_from_ode "
                "blocks of the raw-mode evaluations")

    def finish(self) -> None:
        if self.dead:
            return
        if self.smm:
            self._get_differentials()
        distinct = len(self.used)
        nt = (distinct >= 2 and self.model_eval_seen and self.raw_after_model)
        i = self.init
        labels = [f"training_dtype={i.get('tdtype') or 'float64'}",
                  f"sys={i['sys']}", f"ctrl={i['ctrl']}", f"cls={i['cls']}",
                  f"smm={i['smm']}",
                  "evals=0" if sum(self.n_eval.values()) == 0 else
                  "evals=1..3" if sum(self.n_eval.values()) <= 3 else
                  "evals>=4"]
        if self.n_eval["model"]:
            labels.append("has_model_evaluation")
        if self.raw_after_model:
            labels.append("raw_after_model")
        if self.n_fail:
            labels.append("has_1e200_evaluation")
        if self.rejections:
            labels.append("has_clean_rejection")
        if self.skipped:
            labels.append("has_skipped_expensive_x")
        self.ctx.rec.label("evaluations_raw", self.n_eval["raw"])
        self.ctx.rec.label("evaluations_model", self.n_eval["model"])
        self.ctx.rec.label("evaluations_1e200", self.n_fail)
        self.ctx.rec.label("operations", self.ops)
        self.ctx.rec.case({"init": self.init, "ops": self.ops,
                           "used": [list(u) for u in self.used[:4]],
                           "evals": dict(self.n_eval)},
                          nontrivial=nt, labels=labels)


# ----------------------------------------------------------------------------
# The library's own switcher: SurrogateOptimizer toggles the objective between
# the real system and learned models. Afterwards the objective (and a freshly
# created one) must still return real-system values.
# ----------------------------------------------------------------------------

SURROGATE_WATCHDOG_S = 90.0


def surrogate_runs(catalog: dict) -> Any:
    from hypothesis import strategies as st

    @st.composite
    def cases(draw: Any) -> dict:
        name = draw(st.sampled_from(gen_dc.BUNDLED_SYSTEMS))
        pool = [c for c in catalog[gen_dc.SYSTEM_DIM[name]] if c[1] <= 40]
        ctrl, n = draw(st.sampled_from(pool))
        init = {"sys": name, "ctrl": ctrl, "n_params": n,
                "cls": draw(st.sampled_from(["FigureOfMerit",
                                             "FigureOfMeritLE"])),
                "smm": True, "steps": draw(st.integers(10, 20)),
                "time": draw(st.sampled_from([0.5, 1.0, 2.0]))}
        warm = draw(st.integers(2, 3))
        return {"init": init, "fancy": draw(st.sampled_from(
                    [True, True, False])),
                "log": draw(st.sampled_from([True, True, True, False])),
                "warmup": warm, "budget": warm + draw(st.integers(1, 2)),
                "train_fes": draw(st.integers(2, 6)),
                "model_fes": draw(st.integers(2, 4)),
                "seed": draw(st.integers(0, 2 ** 63 - 1)),
                "xs": [draw(gen_dc.pvec(n, lo=-2.0, hi=2.0, kinds=(
                    "rng", "near_zero", "rng_small", "unit")))
                    for _ in range(2)]}
    return cases()


def _surrogate_job(case: dict) -> tuple:
    import os
    import shutil
    import tempfile

    from moptipy.algorithms.random_sampling import RandomSampling
    from moptipy.api.execution import Execution
    from moptipy.operators.vectors.op0_uniform import Op0Uniform

    from moptipyapps.dynamic_control.controllers.ann import make_ann
    from moptipyapps.dynamic_control.ode import j_from_ode, run_ode
    from moptipyapps.dynamic_control.surrogate_optimizer import (
        SurrogateOptimizer,
    )
    from moptipyapps.dynamic_control.system_model import SystemModel
    from moptipyapps.dynamic_control import objective as objmod

    warnings.simplefilter("ignore")
    init = case["init"]
    base = gen_dc.build_instance_dc(init)
    system, controller = base.system, base.controller
    real_eq = system.equations
    real_name = str(system)
    training = np.array(system.training_starting_states)
    sd, cd = system.state_dims, system.control_dims
    inst = SystemModel(system, controller, make_ann(sd + cd, sd, [sd]))
    cls = getattr(objmod, init["cls"])
    space = controller.parameter_space()
    objective = cls(inst, True)

    def expected(x: np.ndarray) -> float:
        js = []
        with np.errstate(all="ignore"):
            for start in training:
                ode = run_ode(np.array(start), real_eq,
                              controller.controller, x, cd,
                              system.training_steps, system.training_time)
                j = float(j_from_ode(ode, sd, system.state_dims_in_j,
                                     system.gamma))
                if not 0.0 <= j <= 1e100:
                    return 1e200
                js.append(j)
        z = _combine(init["cls"], js)
        return z if 0.0 <= z <= 1e100 else 1e200

    def close(a: float, b: float) -> bool:
        return a == b or (b != 1e200 and a != 1e200
                          and abs(a - b) <= 1e-9 * max(abs(b), 1e-300))

    def rs(sp: Any) -> Any:
        return RandomSampling(Op0Uniform(sp))

    xs = [np.array(x, dtype=float) for x in case["xs"]]
    want = [expected(x) for x in xs]
    tag = (f"{init['cls']} on {init['sys']}/{init['ctrl']} "
           f"(fancy_logs={case['fancy']}, log file={case['log']})")
    td = tempfile.mkdtemp(prefix="vf_c11_") if case["log"] else None
    res: dict = {}
    try:
        ex = Execution().set_objective(objective).set_solution_space(space)
        ex.set_max_fes(case["budget"]).set_rand_seed(case["seed"])
        if td is not None:
            ex.set_log_file(os.path.join(td, "run.txt"))
        ex.set_algorithm(SurrogateOptimizer(
            inst, space, objective, fes_for_warmup=case["warmup"],
            fes_for_training=case["train_fes"],
            fes_per_model_run=case["model_fes"], fancy_logs=case["fancy"],
            warmup_algorithm=rs, model_training_algorithm=rs,
            controller_training_algorithm=rs))
        try:
            with ex.execute() as proc:
                res["f"] = proc.get_best_f()
                bx = proc.create()
                proc.get_copy_of_best_x(bx)
                res["x"] = bx
                res["fes"] = proc.get_consumed_fes()
        except Exception as exc:  # noqa: BLE001
            raise Violation(f"surrogate run of {tag} raised "
                            f"{type(exc).__name__}: {exc}") from exc
    finally:
        if td is not None:
            shutil.rmtree(td, ignore_errors=True)
    e = expected(res["x"])
    require(close(res["f"], e), lambda: f"surrogate run of {tag}: best "
            f"solution recorded with f={res['f']!r}, but on the real system "
            f"its figure of merit is {e!r}")
    for x, w in zip(xs, want):
        with np.errstate(all="ignore"):
            a = objective.evaluate(x.copy())
            fresh = cls(inst, True).evaluate(x.copy())
        require(close(a, w), lambda: f"{tag}: after the surrogate optimizer "
                f"switched to its models and back, evaluate({x.tolist()}) = "
                f"{a!r}, the per-case figures of merit on the real system "
                f"combine to {w!r}")
        require(close(fresh, w), lambda: f"{tag}: after a surrogate run a "
                f"freshly created objective returns {fresh!r} for "
                f"{x.tolist()}, expected {w!r}")
    # the object goes on being used: initialize() clears the recorded data
    # and returns to the real system, whatever happened before
    from moptipyapps.dynamic_control.ode import diff_from_ode
    x0, w0 = xs[0], want[0]
    if w0 != 1e200:
        blocks = []
        with np.errstate(all="ignore"):
            for start in training:
                ode = run_ode(np.array(start), real_eq,
                              controller.controller, x0, cd,
                              system.training_steps, system.training_time)
                sc, df = diff_from_ode(ode, sd)
                blocks.append((np.array(sc), np.array(df)))
        exp_sc = np.concatenate([b[0] for b in blocks])
        exp_df = np.concatenate([b[1] for b in blocks])
        for prelude in ("", "set_model(m); "):
            if prelude:
                objective.set_model(gen_dc.build_surrogate({
                    "kind": "decay", "bias": [0.0] * sd,
                    "W": [[-1.0 if i == j else 0.0 for j in range(sd + cd)]
                          for i in range(sd)]}, objective))
            objective.initialize()
            with np.errstate(all="ignore"):
                a = objective.evaluate(x0.copy())
            require(close(a, w0), lambda: f"{tag}: after the surrogate run, "
                    f"{prelude}initialize(); evaluate({x0.tolist()}) = "
                    f"{a!r}, real-system value is {w0!r}")
            got_sc, got_df = objective.get_differentials()
            require(np.array_equal(got_sc, exp_sc)
                    and np.array_equal(got_df, exp_df),
                    lambda: f"{tag}: after the surrogate run, {prelude}"
                    f"initialize(); evaluate(x); get_differentials() returns "
                    f"{len(got_sc)} rows, the one real-system evaluation "
                    f"since initialize() recorded {len(exp_sc)}")
    require(system.equations is real_eq and str(system) == real_name,
            f"{tag}: the surrogate run replaced the equations or the name "
            f"of the real system (now {system!s})")
    require(np.array_equal(training, system.training_starting_states),
            f"{tag}: the surrogate run changed the training states")
    return (res["fes"] > case["warmup"],
            [f"surrogate.fancy={case['fancy']}", f"surrogate.log={case['log']}",
             f"surrogate.cls={init['cls']}", f"surrogate.sys={init['sys']}"])


def check_surrogate_run(ctx: Ctx, case: dict) -> None:
    from vf.core import CaseTimeout, isolated
    try:
        nontrivial, labels = isolated(lambda: _surrogate_job(case),
                                      SURROGATE_WATCHDOG_S)
    except CaseTimeout:
        ctx.rec.inconc("surrogate_watchdog")
        return
    ctx.rec.case(case, nontrivial=nontrivial, labels=labels)


SUBS = {"history": replay_history(ObjectiveHistory),
        "surrogate_run": check_surrogate_run}


def run(ctx: Ctx) -> None:
    catalog = gen_dc.controller_catalog()
    machine = make_machine(ObjectiveHistory, gen_dc.objective_inits(catalog),
                           gen_dc.objective_ops)
    ctx.state_machine("history", machine, quick=60, thorough=16 * 400,
                      steps=ctx.pick(12, 25))
    ctx.given("surrogate_run", surrogate_runs(catalog), check_surrogate_run,
              quick=5, thorough=16 * 10, shrink=False)
