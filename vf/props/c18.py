"""C18 - TSPLIB instance texts and tour files load to what the format says."""
from __future__ import annotations

import os
import shutil
import tempfile
from fractions import Fraction
from typing import Any

from hypothesis import strategies as st

from vf import gen_mat
from vf import oracle_tsp as o
from vf import fuzz
from vf.core import Ctx, HarnessError, require, sut

META = {'rule': 'roundtrip: matrices as in C05 (symmetric / asymmetric / almost '
         'symmetric, values up to 10^12, class huge up to (10^15-1)/n, and '
         'ordinary matrices with one entry raised to 10^12+1 .. 4*10^14; '
         'n <= 12, thorough 24) with drawn '
         'sanitised names and 0-3 comments -> to_stream -> _from_stream or '
         'from_file; the written text is also decoded by an independent '
         "reader. explicit: the same matrices written by the check's own "
         'writers as FULL_MATRIX / UPPER_ROW / LOWER_DIAG_ROW / '
         'UPPER_DIAG_ROW (asymmetric: FULL_MATRIX) with arbitrary diagonal '
         'values, header keys in drawn order and spacing, data wrapped by '
         'the line-wrapping generator (blanks only); non-trivial = some text '
         'has a matrix row split over lines and a line holding parts of two '
         'rows. coords: 2..10 points, integer coordinates (up to 10^6, also '
         'negative, also in exponent notation), decimals with 1-3 fractional '
         'digits, dyadic decimals (multiples of 1/2, 1/4, 1/8) for EUC_2D / '
         'CEIL_2D / ATT, collinear half-integer points (exact rounding '
         'ties), DDD.MM coordinates (also with fractions of a minute, '
         'DDD.MMmm) for GEO; non-trivial = at least one '
         'distance is not an integer before rounding (GEO: up to 16 points). '
         'tours: all shipped tours (enumerated). shipped_coords: every pair '
         'of cities of every shipped coordinate instance with <= 80 '
         "(thorough 320) cities, coordinates read by the check's own parser. "
         'tour_text: drawn permutations written as wrapped TOUR_SECTION '
         'text, also with a duplicated or missing node; distinct = distinct '
         "cases Additionally 'fuzz_tsplib': coverage-guided fuzzing "
         '(atheris/libFuzzer, TSPLIB keyword dictionary, token-level custom '
         'mutator) of the TSPLIB reader: every text that loads must survive '
         'to_stream -> _from_stream with the same name, size, symmetry flag '
         'and matrix, and its symmetry flag must match its matrix; '
         'non-trivial fuzz inputs = distinct accepted texts.',
 'assumptions': ['numbers in TSPLIB text are separated by blanks (the reader '
                 'tokenises on blanks only), one city per line in coordinate '
                 'sections',
                 'integer and dyadic coordinates: exact integer oracle '
                 '(integer square roots), results must be equal; other '
                 'decimal coordinates: exact rational value, both neighbours '
                 'accepted when it lies within 1e-9 of a rounding boundary '
                 '(counted as borderline)',
                 "GEO: TSPLIB95 formula with the FAQ's truncating degree "
                 'conversion, PI = 3.141592, RRR = 6378.388, evaluated in '
                 'double precision from exactly formed angle differences; '
                 'both neighbours accepted within 1e-6 km of an integer',
                 'documented optima: table of the 31 published values in '
                 "vf/oracle_tsp.py, compared with the instance's lower bound "
                 'and the length of the shipped tour',
                 'fuzz targets: inputs the independent oracle cannot '
                 'interpret and exceptions other than the documented '
                 "rejection are counted, not reported; libFuzzer's -seed "
                 'pins a campaign only approximately, the saved input is the '
                 'reproducible unit'],
 'shards': [4, 16],
 'technique': 'property-based testing: Hypothesis-generated matrices, point '
              'sets and line wrappings, independent TSPLIB writers / reader '
              'and exact-integer TSPLIB95 distance functions; complete '
              'enumeration of the shipped tours + coverage-guided fuzzing '
              '(atheris) of the TSPLIB reader with the write/read round trip '
              'as oracle',
 'level_text': 'randomised exploration of texts up to 12 (24) cities; the 31 '
               'shipped instance/tour pairs are checked exhaustively',
 'level_note': 'trusted: Python fractions / math.isqrt, libm cos / acos for '
               'GEO; defects below the stated guard bands are invisible'}

DEC_TOL = Fraction(1, 10 ** 9)
GEO_TOL = 1e-6


# ----------------------------------------------------------------------------
# header writing
# ----------------------------------------------------------------------------

@st.composite
def header(draw: Any, pairs: list[tuple[str, str]],
           optional: list[tuple[str, str]]) -> list[str]:
    """Key/value lines in a drawn order with drawn ' : ' spacing."""
    items = list(pairs)
    for kv in optional:
        if draw(st.booleans()):
            items.append(kv)
    items = list(draw(st.permutations(items)))
    sep = draw(st.sampled_from([": ", " : ", ":", " :  "]))
    lines = []
    for k, v in items:
        if draw(st.integers(0, 9)) == 0:
            lines.append("")
        lines.append(f"{k}{sep}{v}")
    return lines


# ----------------------------------------------------------------------------
# strategies
# ----------------------------------------------------------------------------

@st.composite
def roundtrip_cases(draw: Any, max_n: int) -> dict:
    mat = draw(gen_mat.tsp_matrix(min_n=2, max_n=max_n))
    if mat["cls"] != "huge" and draw(st.integers(0, 9)) == 0:
        # one distance above 10^12 in an otherwise ordinary matrix: the constructor admits every matrix whose
        # sum of row maxima stays <= 10^15
        m, n = mat["m"], mat["n"]
        big = draw(st.sampled_from([10 ** 12 + 1, 2 * 10 ** 12,
                                    123456789012345, 4 * 10 ** 14]))
        i = draw(st.integers(0, n - 1))
        j = (i + 1 + draw(st.integers(0, n - 2))) % n
        sym = o.is_symmetric(m)
        m[i][j] = big
        if sym:
            m[j][i] = big
        mat["cls"] = "one_huge"
        mat["in_dtype"] = "int64"
    return {"mat": mat,
            "name": draw(gen_mat.names()),
            "comments": draw(gen_mat.comments()),
            "getter": draw(st.booleans()),
            "via_file": draw(st.integers(0, 3)) == 0}


@st.composite
def explicit_cases(draw: Any, max_n: int) -> dict:
    mat = draw(gen_mat.tsp_matrix(min_n=2, max_n=max_n, kinds=(
        "sym", "sym", "sym", "asym", "almost")))
    n, m = mat["n"], mat["m"]
    sym = o.is_symmetric(m)
    name = draw(gen_mat.names())
    texts = {}
    fmts = o.EXPLICIT_FORMATS if sym else ("FULL_MATRIX",)
    for fmt in fmts:
        dkind = draw(st.sampled_from(["zero", "big", "mixed"]))
        if dkind == "zero":
            diag = [0] * n
        elif dkind == "big":
            diag = [draw(st.sampled_from([9999, 99999999, 10 ** 12]))] * n
        else:
            diag = [draw(gen_mat.magnitude(10 ** 12)) for _ in range(n)]
        rows = o.explicit_rows(m, fmt, diag)
        toks = [str(v) for r in rows for v in r]
        ttype = "TSP" if sym and (fmt != "FULL_MATRIX"
                                  or draw(st.booleans())) else "ATSP"
        head = draw(header(
            [("NAME", name), ("TYPE", ttype), ("DIMENSION", str(n)),
             ("EDGE_WEIGHT_TYPE", "EXPLICIT"), ("EDGE_WEIGHT_FORMAT", fmt)],
            [("COMMENT", "generated by the C18 check"),
             ("DISPLAY_DATA_TYPE", "NO_DISPLAY"),
             ("NODE_COORD_TYPE", "NO_COORDS")]))
        body = draw(gen_mat.wrapped_lines(
            toks, row_len=max(1, len(rows[0])), tabs=False))
        tail = draw(st.sampled_from([["EOF"], ["EOF", ""], [], [" EOF "]]))
        texts[fmt] = {"diag": diag, "type": ttype,
                      "lines": head + ["EDGE_WEIGHT_SECTION"] + body + tail}
    return {"mat": mat, "name": name, "texts": texts,
            "getter": draw(st.booleans())}


def _render(k: int, f: int, minimal: bool = False) -> str:
    """Decimal literal of k / 10^f with f fractional digits."""
    if f == 0:
        return str(k)
    sign = "-" if k < 0 else ""
    a = abs(k)
    ip, fp = divmod(a, 10 ** f)
    frac = f"{fp:0{f}d}"
    if minimal:
        frac = frac.rstrip("0") or "0"
    return f"{sign}{ip}.{frac}"


COORD_STYLES = ("int_small", "int", "int_big", "int_exp", "exp_bare", "dec1",
                "dec2", "dec3", "dec_small", "dyadic", "dyadic", "tie_line")


@st.composite
def planar_points(draw: Any, n: int) -> tuple[str, list[list[str]]]:
    style = draw(st.sampled_from(COORD_STYLES))
    if style == "exp_bare":
        # one significant digit times a power of ten, written without a
        # decimal point the way repr(float) does for tiny / huge values:
        # 5e2, 3e+02, 7E3, 4e-05 ...
        out = []
        seen_txt = set()
        while len(out) < n:
            pair = []
            for _ in range(2):
                d = draw(st.integers(0, 9))
                k = draw(st.sampled_from([0, 1, 2, 3, 4, -5, -2]))
                pair.append(draw(st.sampled_from([
                    f"{d}e{k}", f"{d}e{k:+03d}", f"{d}E{k}",
                    f"{d}e{k:+d}"])))
            key = tuple(str(float(v)) for v in pair)
            if key in seen_txt:
                pair[0] = f"{len(out) + 1}e3"
                key = (str(float(pair[0])), key[1])
            seen_txt.add(key)
            out.append(pair)
        return style, out
    f = 0
    unit = 1  # all coordinates are multiples of unit / 10^f
    if style == "int_small":
        lo, hi = draw(st.sampled_from([(0, 6), (-5, 5), (0, 25)]))
    elif style == "int":
        lo, hi = 0, 1000
    elif style == "int_big":
        lo, hi = draw(st.sampled_from([(0, 10 ** 6), (-10 ** 6, 10 ** 6),
                                       (10 ** 6 - 50, 10 ** 6)]))
    elif style == "int_exp":
        lo, hi = 0, draw(st.sampled_from([20, 2000, 99999]))
    elif style in ("dec1", "dec2", "dec3"):
        f = int(style[3])
        r = draw(st.sampled_from([20, 1000, 10 ** 5]))
        lo, hi = -r * 10 ** f if draw(st.booleans()) else 0, r * 10 ** f
    elif style == "dec_small":
        f = 1
        lo, hi = 0, 80
    elif style == "tie_line":
        # multiples of 1/2 on a common line: distances k + 1/2 are exact
        # ties of the rounding rule, computed without error in binary
        f = 1
        unit = 5
        lo, hi = 0, draw(st.sampled_from([9, 30]))
    else:  # dyadic: multiples of 1/2, 1/4 or 1/8
        f = 3
        unit = draw(st.sampled_from([500, 500, 250, 125]))
        r = draw(st.sampled_from([6, 40, 10 ** 4]))
        lo, hi = 0, r * 1000 // unit
    pts: list[tuple[int, int]] = []
    seen = set()
    axis = draw(st.integers(0, 3))  # 1: common x, 2: common y
    if style == "tie_line":
        axis = 1 + axis % 2
    cx = draw(st.integers(lo, hi))
    for _ in range(n):
        x = cx if axis == 1 else draw(st.integers(lo, hi))
        y = cx if axis == 2 else draw(st.integers(lo, hi))
        while (x, y) in seen:
            if axis == 1:
                y += 1
            else:
                x += 1
        seen.add((x, y))
        pts.append((x * unit, y * unit))
    scale = 10 ** f
    if f and max(p[0] for p in pts) - min(p[0] for p in pts) < scale and \
            max(p[1] for p in pts) - min(p[1] for p in pts) < scale:
        pts[-1] = (pts[-1][0] + 2 * scale, pts[-1][1])
    out = []
    for (x, y) in pts:
        if style == "int_exp":
            out.append([f"{x:.5e}", f"{y:.5e}"])
        else:
            mini = style in ("dyadic", "tie_line")
            out.append([_render(x, f, mini), _render(y, f, mini)])
    return style, out


@st.composite
def geo_points(draw: Any, n: int) -> tuple[str, list[list[str]]]:
    style = draw(st.sampled_from(["geo_mm", "geo_mm", "geo_int", "geo_near",
                                  "geo_one_digit", "geo_frac"]))
    out = []
    base = (draw(st.integers(-89, 89)), draw(st.integers(-179, 179)))
    for _ in range(n):
        row = []
        for which, lim in ((0, 90), (1, 180)):
            if style == "geo_near":
                deg = max(-lim + 1, min(lim - 1, base[which]
                                        + draw(st.integers(-1, 1))))
            else:
                deg = draw(st.integers(-lim, lim))
            mm = 0 if abs(deg) == lim else draw(st.integers(0, 59))
            neg = deg < 0 or (deg == 0 and draw(st.integers(0, 3)) == 0)
            sign = "-" if neg else ""
            if style == "geo_int":
                row.append(f"{deg}")
            elif style == "geo_one_digit":
                row.append(f"{sign}{abs(deg)}.{mm // 10}")
            elif style == "geo_frac":  # fractions of a minute: DDD.MMmm
                extra = draw(st.sampled_from(["5", "25", "49", "51", "99",
                                              "01", "1", "9"]))
                row.append(f"{sign}{abs(deg)}.{mm:02d}{extra}")
            else:
                row.append(f"{sign}{abs(deg)}.{mm:02d}")
        out.append(row)
    return style, out


@st.composite
def coord_cases(draw: Any, max_n: int) -> dict:
    kind = draw(st.sampled_from(["EUC_2D", "CEIL_2D", "ATT", "GEO"]))
    # GEO: more cities, because a slightly wrong constant only shows in
    # about one of 1000 long distances
    n = draw(st.integers(2, max(max_n, 16) if kind == "GEO" else max_n))
    style, pts = draw(geo_points(n) if kind == "GEO" else planar_points(n))
    name = draw(gen_mat.names())
    head = draw(header(
        [("NAME", name), ("TYPE", "TSP"), ("DIMENSION", str(n)),
         ("EDGE_WEIGHT_TYPE", kind)],
        [("COMMENT", "generated by the C18 check"),
         ("NODE_COORD_TYPE", "TWOD_COORDS"),
         ("EDGE_WEIGHT_FORMAT", "FUNCTION"),
         ("DISPLAY_DATA_TYPE", "COORD_DISPLAY")]))
    lay = draw(st.sampled_from(["plain", "indent", "wide"]))
    body = []
    for i, (x, y) in enumerate(pts):
        if lay == "plain":
            body.append(f"{i + 1} {x} {y}")
        elif lay == "indent":
            body.append(f"  {i + 1} {x}  {y} ")
        else:
            gap = " " * draw(st.integers(1, 4))
            body.append(f"{i + 1:>4}{gap}{x:>12}{gap}{y}")
        if draw(st.integers(0, 15)) == 0:
            body.append("")
    tail = draw(st.sampled_from([["EOF"], [], ["EOF", ""]]))
    return {"kind": kind, "style": style, "pts": pts, "name": name,
            "lines": head + ["NODE_COORD_SECTION"] + body + tail}


@st.composite
def tour_text_cases(draw: Any, max_n: int) -> dict:
    n = draw(st.integers(1, max_n))
    tour = list(draw(gen_mat.perm(n)))
    defect = draw(st.sampled_from(["none"] * 4 + ["duplicate", "missing"]))
    nodes = [v + 1 for v in tour]
    if defect == "duplicate" and n >= 2:
        i = draw(st.integers(0, n - 1))
        j = (i + 1 + draw(st.integers(0, n - 2))) % n
        if draw(st.booleans()):
            nodes[i] = nodes[j]  # one node twice, another one missing
        else:
            nodes.insert(i, nodes[j])  # one node twice, none missing
    elif defect == "missing" and n >= 2:
        cand = [k for k, v in enumerate(nodes) if v != n]
        del nodes[draw(st.sampled_from(cand))]
    else:
        defect = "none"
    name = draw(gen_mat.names())
    sep = draw(st.sampled_from([" : ", ": "]))
    head = [f"NAME{sep}{name}.opt.tour",
            f"COMMENT{sep}tour generated by the C18 check",
            f"TYPE{sep}TOUR", f"DIMENSION{sep}{n}"]
    if draw(st.booleans()):
        del head[1]
    body = draw(gen_mat.wrapped_lines([str(v) for v in nodes],
                                      row_len=10, tabs=True))
    tail = draw(st.sampled_from([["-1", "EOF"], ["-1"], ["EOF"],
                                 ["-1", "EOF", ""], []]))
    return {"tour": tour, "defect": defect,
            "lines": head + ["TOUR_SECTION"] + body + tail,
            "via_file": draw(st.integers(0, 3)) == 0}


# ----------------------------------------------------------------------------
# helpers
# ----------------------------------------------------------------------------

def _load(lines: list[str], getter: Any, via_file: bool = False,
          file_name: str = "x.tsp", allowed: tuple = ()) -> Any:
    from moptipyapps.tsp import instance as ti
    if not via_file:
        return sut("tsp _from_stream", ti._from_stream, iter(lines), getter,
                   allowed=allowed)
    tmp = tempfile.mkdtemp(prefix="vf_c18_")
    try:
        path = os.path.join(tmp, file_name)
        with open(path, "w", encoding="utf-8") as f:
            for ln in lines:
                f.write(ln.rstrip("\n") + "\n")
        return sut("Instance.from_file", ti.Instance.from_file, path, getter,
                   allowed=allowed)
    finally:
        shutil.rmtree(tmp, ignore_errors=True)


def _same_instance(inst: Any, name: str, m: list[list[int]], what: str) \
        -> None:
    import numpy as np
    n = len(m)
    require(inst.name == name, lambda: f"{what}: name {inst.name!r}, "
            f"expected {name!r}")
    require(inst.n_cities == n and inst.shape == (n, n),
            lambda: f"{what}: n_cities {inst.n_cities}, expected {n}")
    sym = o.is_symmetric(m)
    require(bool(inst.is_symmetric) == sym,
            lambda: f"{what}: is_symmetric={inst.is_symmetric}, matrix "
            f"symmetric={sym}")
    got = np.asarray(inst).tolist()
    require(got == m, lambda: f"{what}: loaded matrix differs: "
            f"{_first_diff(got, m)}")


def _first_diff(a: list, b: list) -> str:
    for i, (ra, rb) in enumerate(zip(a, b)):
        for j, (va, vb) in enumerate(zip(ra, rb)):
            if va != vb:
                return f"[{i}][{j}] loaded {va}, expected {vb}"
    return "shape"


def decode_explicit_text(lines: list[str]) -> tuple[dict, list[list[int]]]:
    """Independent reader for EXPLICIT TSPLIB text -> (header, matrix)."""
    head: dict[str, str] = {}
    toks: list[int] = []
    in_data = False
    for raw in lines:
        ln = raw.strip()
        if not ln:
            continue
        if in_data:
            if ln == "EOF":
                break
            toks.extend(int(t) for t in ln.split(" ") if t)
        elif ln == "EDGE_WEIGHT_SECTION":
            in_data = True
        elif ":" in ln:
            k, v = ln.split(":", 1)
            if k.strip() != "COMMENT":
                head[k.strip()] = v.strip()
    n = int(head["DIMENSION"])
    fmt = head["EDGE_WEIGHT_FORMAT"]
    m = [[0] * n for _ in range(n)]
    it = iter(toks)
    if fmt == "FULL_MATRIX":
        for i in range(n):
            for j in range(n):
                v = next(it)
                if i != j:
                    m[i][j] = v
    elif fmt == "UPPER_ROW":
        for i in range(n - 1):
            for j in range(i + 1, n):
                m[i][j] = m[j][i] = next(it)
    elif fmt == "LOWER_DIAG_ROW":
        for i in range(n):
            for j in range(i + 1):
                v = next(it)
                if i != j:
                    m[i][j] = m[j][i] = v
    elif fmt == "UPPER_DIAG_ROW":
        for i in range(n):
            for j in range(i, n):
                v = next(it)
                if i != j:
                    m[i][j] = m[j][i] = v
    else:
        raise ValueError(f"format {fmt!r}")
    if next(it, None) is not None:
        raise ValueError("surplus numbers in the edge weight section")
    return head, m


# ----------------------------------------------------------------------------
# checks
# ----------------------------------------------------------------------------

def check_roundtrip(ctx: Ctx, case: dict) -> None:
    import numpy as np
    from moptipy.utils.strings import sanitize_name
    from moptipyapps.tsp.instance import Instance
    mat, name = case["mat"], case["name"]
    n, m = mat["n"], mat["m"]
    if sanitize_name(name) != name:
        raise HarnessError(f"generated name {name!r} is not sanitised")
    arr = np.array(m, dtype=np.dtype(mat["in_dtype"]))
    orig = sut("tsp Instance()", Instance, name, 0, arr)
    lines: list[str] = []
    sut("to_stream", orig.to_stream, lines.append, case["comments"])
    require(all(isinstance(ln, str) and "\n" not in ln for ln in lines),
            "to_stream produced a non-string or multi-line item")
    # 1. the text itself, decoded by an independent reader
    try:
        head, m2 = decode_explicit_text(lines)
    except (KeyError, ValueError, StopIteration) as e:
        require(False, f"written text is not TSPLIB EXPLICIT text: "
                f"{type(e).__name__} {e}; text={lines[:12]}")
    sym = o.is_symmetric(m)
    require(head.get("NAME") == name and head.get("DIMENSION") == str(n)
            and head.get("EDGE_WEIGHT_TYPE") == "EXPLICIT",
            lambda: f"header of the written text is wrong: {head}")
    require(head.get("TYPE") in ("TSP", "ATSP")
            and (head["TYPE"] == "ATSP" or sym),
            lambda: f"TYPE {head.get('TYPE')} for a matrix with "
            f"symmetric={sym}")
    require(m2 == m, lambda: f"written text ({head['EDGE_WEIGHT_FORMAT']}) "
            f"encodes another matrix: {_first_diff(m2, m)}")
    ncom = sum(1 for ln in lines if ln.startswith("COMMENT"))
    require(ncom == len(case["comments"]),
            lambda: f"{len(case['comments'])} comments given, {ncom} written")
    # 2. read back
    lb = orig.tour_length_lower_bound
    getter = (lambda _name: lb) if case["getter"] else None
    back = _load(lines, getter, case["via_file"], f"{name}.tsp")
    _same_instance(back, name, m, "round trip")
    require(back.tour_length_lower_bound == lb
            and back.tour_length_upper_bound == orig.tour_length_upper_bound,
            "bounds changed in the round trip")
    labels = ["roundtrip:" + ("symmetric" if sym else mat["kind"]),
              "roundtrip:fmt=" + head["EDGE_WEIGHT_FORMAT"],
              f"roundtrip:comments={len(case['comments'])}",
              "roundtrip:" + ("from_file" if case["via_file"]
                              else "_from_stream"),
              f"cls={mat['cls']}"]
    if max(max(r) for r in m) > 10 ** 12:
        labels.append("entry>10^12")
    elif max(max(r) for r in m) == 10 ** 12:
        labels.append("entry=10^12")
    ctx.rec.case(case, nontrivial=(n >= 3 and not
                                   o.off_diagonal_constant(m)), labels=labels)


def check_explicit(ctx: Ctx, case: dict) -> None:
    mat, name = case["mat"], case["name"]
    m = mat["m"]
    getter = (lambda _name: 0) if case["getter"] else None
    labels = []
    nt = False
    for fmt in sorted(case["texts"]):
        t = case["texts"][fmt]
        rows = o.explicit_rows(m, fmt, t["diag"])
        # harness consistency: the text carries exactly the oracle's numbers
        try:
            _head, dec = decode_explicit_text(t["lines"])
        except (KeyError, ValueError, StopIteration) as e:
            raise HarnessError(f"generated text is broken: {e}") from e
        if dec != m:
            raise HarnessError("generated text encodes another matrix")
        inst = _load(t["lines"], getter)
        _same_instance(inst, name, m, fmt)
        data = []
        seen = False
        for ln in t["lines"]:
            if seen and ln.strip() not in ("EOF", ""):
                data.append(ln)
            seen = seen or ln.strip() == "EDGE_WEIGHT_SECTION"
        stats = gen_mat.split_stats(gen_mat.token_counts(data),
                                    [len(r) for r in rows if r])
        labels.append(f"explicit:{fmt}")
        if stats["split"]:
            labels.append(f"explicit:{fmt}:row_split")
        if stats["shared"]:
            labels.append(f"explicit:{fmt}:line_shares_rows")
        if any(v != 0 for v in t["diag"]) and fmt != "UPPER_ROW":
            labels.append("explicit:nonzero_diagonal")
        nt = nt or (stats["split"] and stats["shared"])
    labels.append("explicit:" + ("symmetric" if len(case["texts"]) > 1
                                 else "asymmetric"))
    ctx.rec.case(case, nontrivial=nt, labels=labels)


def expected_distances(kind: str, pts: list[list[str]]) -> dict:
    """Accepted interval per pair, exactness rule, degeneracy information."""
    fr = [(o.dec(x), o.dec(y)) for x, y in pts]
    n = len(fr)
    exact_rule = all(c.denominator in (1, 2, 4, 8) for p in fr for c in p)
    tol = Fraction(0) if exact_rule else DEC_TOL
    lo = [[0] * n for _ in range(n)]
    hi = [[0] * n for _ in range(n)]
    borderline = nonint = 0
    for i in range(n):
        for j in range(i):
            if kind == "GEO":
                _v, a, b, pre = o.geo_distance(fr[i], fr[j], GEO_TOL)
                nonint += pre != int(pre)
            else:
                _v, a, b, ni = o.planar_distance(kind, fr[i], fr[j], tol)
                nonint += ni
            borderline += a != b
            lo[i][j] = lo[j][i] = a
            hi[i][j] = hi[j][i] = b
    return {"lo": lo, "hi": hi, "exact_rule": exact_rule,
            "borderline": borderline, "nonint": nonint}


def check_coords(ctx: Ctx, case: dict) -> None:
    import numpy as np
    kind, pts, name = case["kind"], case["pts"], case["name"]
    n = len(pts)
    exp = expected_distances(kind, pts)
    lo, hi = exp["lo"], exp["hi"]
    may_degenerate = any(all(lo[i][j] <= 0 for j in range(n) if j != i)
                         for i in range(n))
    labels = [f"coords:{kind}", f"coords:style={case['style']}"]
    try:
        inst = _load(case["lines"], None,
                     allowed=(ValueError,) if may_degenerate else ())
    except ValueError:
        ctx.rec.case(case, nontrivial=False,
                     labels=labels + ["coords:rejected_city_without_"
                                      "positive_distance"])
        return
    require(inst.name == name and inst.n_cities == n,
            lambda: f"name/size {inst.name!r}/{inst.n_cities}, expected "
            f"{name!r}/{n}")
    require(bool(inst.is_symmetric), "coordinate instance not symmetric")
    got = np.asarray(inst).tolist()
    for i in range(n):
        require(got[i][i] == 0, "non-zero diagonal")
        for j in range(i):
            require(got[i][j] == got[j][i], "asymmetric distance")
            require(lo[i][j] <= got[i][j] <= hi[i][j], lambda: (
                f"{kind} distance of city {i + 1} {pts[i]} and city "
                f"{j + 1} {pts[j]} is {got[i][j]}, TSPLIB95 gives "
                + (f"{lo[i][j]}" if lo[i][j] == hi[i][j] else
                   f"{lo[i][j]}..{hi[i][j]} (guard band)")))
    if exp["borderline"]:
        labels.append("coords:borderline_pairs_present")
        ctx.rec.label("coords:borderline_pairs", exp["borderline"])
    labels.append("coords:exact_rule" if exp["exact_rule"] and kind != "GEO"
                  else "coords:guard_band")
    ctx.rec.label("coords:pairs", n * (n - 1) // 2)
    ctx.rec.case(case, nontrivial=exp["nonint"] > 0, labels=labels)


def check_shipped_tour(ctx: Ctx, case: dict) -> None:
    import numpy as np
    from moptipyapps.tsp.instance import Instance
    from moptipyapps.tsp.known_optima import opt_tour_from_resource
    from moptipyapps.tsp.tour_length import tour_length
    name = case["name"]
    require(name in Instance.list_resources(),
            f"tour {name!r} has no instance resource")
    inst = sut("from_resource", Instance.from_resource, name)
    tour = sut("opt_tour_from_resource", opt_tour_from_resource, name)
    xs = [int(v) for v in tour]
    require(o.is_permutation(xs, inst.n_cities),
            lambda: f"{name}: shipped tour is no permutation of "
            f"0..{inst.n_cities - 1}")
    m = np.asarray(inst).tolist()
    true_len = o.cyclic_length(m, xs)
    doc = o.DOCUMENTED_OPTIMA.get(name)
    labels = ["tours:shipped"]
    if doc is None:
        doc = inst.tour_length_lower_bound
        labels.append("tours:optimum_from_repository_table")
    require(true_len == doc, lambda: f"{name}: shipped tour has length "
            f"{true_len}, documented optimum {doc}")
    require(inst.tour_length_lower_bound == doc,
            lambda: f"{name}: instance lower bound "
            f"{inst.tour_length_lower_bound} != documented optimum {doc}")
    got = sut("tour_length", tour_length, inst, tour)
    require(got == doc, lambda: f"{name}: tour_length={got}, optimum {doc}")
    ctx.rec.case(case, nontrivial=True, labels=labels)


def read_shipped_coords(name: str) -> tuple[str, list[list[str]]] | None:
    """(edge weight type, coordinate literals) of a shipped .tsp file, read
    by the check's own parser; None when the file has no coordinates in one
    of the four supported metrics."""
    from importlib import resources
    text = resources.files("moptipyapps.tsp.tsplib").joinpath(
        f"{name}.tsp").read_text(encoding="utf-8")
    kind = None
    pts: list[list[str]] = []
    in_coords = False
    for raw in text.splitlines():
        ln = raw.strip()
        if not ln:
            continue
        if in_coords:
            parts = ln.split()
            if ln == "EOF" or not parts[0].isdigit():
                break
            if len(parts) != 3 or int(parts[0]) != len(pts) + 1:
                raise HarnessError(f"{name}: cannot read line {ln!r}")
            pts.append(parts[1:])
        elif ln == "NODE_COORD_SECTION":
            in_coords = True
        elif ":" in ln:
            k, v = ln.split(":", 1)
            if k.strip() == "EDGE_WEIGHT_TYPE":
                kind = v.strip()
    if kind not in ("EUC_2D", "CEIL_2D", "ATT", "GEO") or not pts:
        return None
    return kind, pts


def check_shipped_coords(ctx: Ctx, case: dict) -> None:
    """Every distance of a shipped coordinate instance vs the exact oracle."""
    import numpy as np
    from moptipyapps.tsp.instance import Instance
    name = case["name"]
    got = read_shipped_coords(name)
    if got is None:
        raise HarnessError(f"{name} is not a coordinate instance")
    kind, pts = got
    inst = sut("from_resource", Instance.from_resource, name)
    n = len(pts)
    require(inst.n_cities == n, lambda: f"{name}: {inst.n_cities} cities "
            f"loaded, file lists {n}")
    exp = expected_distances(kind, pts)
    m = np.asarray(inst).tolist()
    lo, hi = exp["lo"], exp["hi"]
    for i in range(n):
        for j in range(i):
            require(m[i][j] == m[j][i] and lo[i][j] <= m[i][j] <= hi[i][j],
                    lambda: f"{name}: {kind} distance of cities {i + 1} "
                    f"{pts[i]} and {j + 1} {pts[j]} is {m[i][j]}/{m[j][i]}, "
                    f"TSPLIB95 gives {lo[i][j]}..{hi[i][j]}")
    ctx.rec.label("shipped_coords:pairs", n * (n - 1) // 2)
    if exp["borderline"]:
        ctx.rec.label("shipped_coords:borderline_pairs", exp["borderline"])
    ctx.rec.case(case, nontrivial=True, labels=[
        f"shipped_coords:{kind}", "shipped_coords:" + (
            "exact_rule" if exp["exact_rule"] and kind != "GEO"
            else "guard_band")])


def check_tour_text(ctx: Ctx, case: dict) -> None:
    from moptipyapps.tsp import known_optima as ko
    lines, tour, defect = case["lines"], case["tour"], case["defect"]
    allowed = (ValueError,) if defect != "none" else ()
    tmp = None
    try:
        if case["via_file"]:
            tmp = tempfile.mkdtemp(prefix="vf_c18_")
            path = os.path.join(tmp, "t.opt.tour")
            with open(path, "w", encoding="utf-8") as f:
                for ln in lines:
                    f.write(ln.rstrip("\n") + "\n")
            got = sut("opt_tour_from_file", ko.opt_tour_from_file, path,
                      allowed=allowed)
        else:
            got = sut("known_optima._from_stream", ko._from_stream,
                      iter(lines), allowed=allowed)
    except ValueError:
        ctx.rec.case(case, nontrivial=True,
                     labels=[f"tour_text:rejected_{defect}"])
        return
    finally:
        if tmp:
            shutil.rmtree(tmp, ignore_errors=True)
    require(defect == "none", lambda: f"tour text with a {defect} node was "
            f"accepted as {[int(v) for v in got]}")
    xs = [int(v) for v in got]
    require(xs == tour, lambda: f"parsed tour {xs}, text lists {tour}")
    counts = gen_mat.token_counts(lines[lines.index("TOUR_SECTION") + 1:])
    ctx.rec.case(case, nontrivial=len(tour) >= 3, labels=[
        "tour_text:ok", "tour_text:" + ("from_file" if case["via_file"]
                                        else "_from_stream"),
        "tour_text:lines" + ("=1" if len([c for c in counts if c > 1]) <= 1
                             else ">1")])


SUBS = {"roundtrip": check_roundtrip, "explicit": check_explicit,
        "coords": check_coords, "tours": check_shipped_tour,
        "tour_text": check_tour_text, "shipped_coords": check_shipped_coords}
SUBS["fuzz_tsplib"] = fuzz.make_sub("tsplib")


def run(ctx: Ctx) -> None:
    from moptipyapps.tsp.known_optima import list_resource_tours
    names = sorted(list_resource_tours())
    if len(names) < 31:
        raise HarnessError(f"only {len(names)} shipped tours found")
    done = ctx.each("tours", ctx.my_share([{"name": nm} for nm in names]),
                    check_shipped_tour, max_violations=5)
    if not ctx.warm:
        ctx.rec.subreport("exhaustive_shipped_tours", exhaustive=True,
                          count=done)
    from moptipyapps.tsp.instance import Instance, ncities_from_tsplib_name
    limit = ctx.pick(80, 320)
    small = [nm for nm in sorted(Instance.list_resources(asymmetric=False))
             if ncities_from_tsplib_name(nm) <= limit
             and read_shipped_coords(nm) is not None]
    done = ctx.each("shipped_coords", ctx.my_share(
        [{"name": nm} for nm in small]), check_shipped_coords,
        max_violations=5)
    if not ctx.warm:
        ctx.rec.subreport(f"exhaustive_shipped_coordinate_instances_up_to_"
                          f"{limit}_cities", exhaustive=True, count=done)
    max_n = ctx.pick(12, 24)
    ctx.given("roundtrip", roundtrip_cases(max_n), check_roundtrip,
              quick=400, thorough=16 * 2000)
    ctx.given("explicit", explicit_cases(max_n), check_explicit,
              quick=400, thorough=16 * 2000)
    ctx.given("coords", coord_cases(ctx.pick(8, 10)), check_coords,
              quick=600, thorough=16 * 3500)
    ctx.given("tour_text", tour_text_cases(ctx.pick(12, 40)),
              check_tour_text, quick=150, thorough=16 * 500)
    fuzz.run_target(ctx, "tsplib", quick_runs=120_000,
                    thorough_runs=16 * 1_000_000)
