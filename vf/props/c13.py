"""C13 - compiled kernels never access memory outside their arrays.

Everything here runs in worker processes started with NUMBA_BOUNDSCHECK=1
(part "main@bc"): numba's global switch overrides the ``boundscheck=False``
of the decorators, so an out-of-range index raises IndexError instead of
silently reading or writing foreign memory.

Two sources of cases:

1. the generators *and* sub-checks of the other kernel-related properties are
   re-run through a proxy context at reduced case counts (their own oracles
   keep running, but only an IndexError counts here);
2. an explicit catalogue of extreme inputs (last team/city/bin index, one-item
   and one-bin instances, every item in its own bin, self-play plans, ...).
"""
from __future__ import annotations

import importlib
from typing import Any, Callable, Iterable

from hypothesis import strategies as st

from vf.core import Ctx, Recorder, Violation, require

META = {
    "rule": "all cases run with NUMBA_BOUNDSCHECK=1. (1) the Hypothesis "
            "strategies and sub-checks of C01, C02, C05, C06, C07, C08, C09, "
            "C14, C15, C16, C17 and C20 are re-run through a proxy context "
            "at about a tenth of their case counts; (2) an explicit catalogue "
            "of extreme inputs: a team meeting itself (every team, home and "
            "away, every day), byes everywhere, last team/city index, one-item "
            "and one-bin packing instances, every item in its own bin incl. "
            "126..129 items (storage-type edge of the index arrays), two-city "
            "TSP and 1x1 / 2x2 QAP instances, all-equal distance matrices so "
            "that the FEA table is addressed at its last entry, permutations "
            "of length 1 and 2 for swap_distance, two-team and odd-team game "
            "encodings, sequences of generated network controllers that "
            "differ only in the number of outputs, model objectives that "
            "pull growing training data several times, systems with "
            "starting-state matrices of the wrong width (must be rejected "
            "or handled inside the arrays), multi_run_ode with compiled "
            "controllers and equations of 1..3 control values. A case is non-trivial when it comes from the "
            "catalogue or is non-trivial under the rule of the property whose "
            "generator produced it; distinct = distinct (source, case) pairs",
    "assumptions": [
        "NUMBA_BOUNDSCHECK=1 overrides boundscheck=False in the njit "
        "decorators (verified: ttp count_errors with a self-play plan raises "
        "IndexError on the original tree)",
        "an out-of-range access is only visible on inputs the generators "
        "reach; negative indices that wrap inside the array are not "
        "detected by numba's bounds check",
        "violations of other properties seen while re-running their "
        "sub-checks are ignored here (their own checks report them)"],
    "shards": [4, 16],
    "parts": ["main@bc"],
    "technique": "property-based testing under numba's global bounds "
                 "checking: re-use of all kernel generators plus an extremes "
                 "catalogue; IndexError = violation",
    "level_text": "Generated-input search in a child process with "
                  "NUMBA_BOUNDSCHECK=1: every kernel family is driven with "
                  "the generators of its own property and with a hand-built "
                  "catalogue of boundary inputs; an out-of-bounds index "
                  "becomes an IndexError. No absence claim beyond the inputs "
                  "explored.",
    "level_note": "Trusted: numba's bounds checking. Sources re-used from "
                  "the other property modules run with their own oracles "
                  "switched to 'ignore'.",
}

SOURCES = ("c01", "c02", "c05", "c06", "c07", "c08", "c09", "c14", "c15",
           "c16", "c17", "c20")
SCALE = 0.1  # fraction of the source property's case counts


def is_index_error(exc: BaseException) -> bool:
    seen = 0
    e: BaseException | None = exc
    while e is not None and seen < 6:
        if isinstance(e, IndexError):
            return True
        if "IndexError" in str(e) and "out of bounds" in str(e):
            return True
        e = e.__cause__ or e.__context__
        seen += 1
    return False


def wrap(source: str, fn: Callable[[Ctx, Any], None], catalogue: bool = False
         ) -> Callable[[Ctx, Any], None]:
    """Run a sub-check of another property; only IndexError counts."""

    def check(ctx: Ctx, case: Any) -> None:
        shadow = _shadow(ctx)
        nontrivial = catalogue
        try:
            fn(shadow, case)
        except Violation as v:
            if is_index_error(v):
                raise Violation(f"[{source}] out-of-bounds access under "
                                f"NUMBA_BOUNDSCHECK=1: {v}") from v
            ctx.rec.label(f"ignored_other_violation.{source}")
        except IndexError as e:
            raise Violation(f"[{source}] out-of-bounds access under "
                            f"NUMBA_BOUNDSCHECK=1: IndexError: {e}") from e
        nontrivial = nontrivial or len(shadow.rec.nontrivial) > 0
        if catalogue:
            for k, v in shadow.rec.labels.items():
                ctx.rec.label(f"catalogue.{k}", v)
        for k, v in shadow.rec.inconclusive.items():
            ctx.rec.inconclusive[k] = ctx.rec.inconclusive.get(k, 0) + v
        ctx.rec.case({"source": source, "case": case}, nontrivial=nontrivial,
                     labels=[f"source={source}"])

    return check


def _shadow(ctx: Ctx) -> Ctx:
    sh = Ctx(ctx.prop, ctx.tier, ctx.seed, ctx.shard, ctx.nshards,
             ctx.replay_dir)
    sh.part = ctx.part
    sh.warm = ctx.warm
    sh.replaying = ctx.replaying
    sh.rec = Recorder()
    return sh


class Proxy(Ctx):
    """Context handed to the ``run`` of another property module."""

    def __init__(self, real: Ctx, source: str) -> None:
        super().__init__(real.prop, real.tier, real.seed, real.shard,
                         real.nshards, real.replay_dir)
        self.real = real
        self.source = source
        self.part = real.part
        self.warm = real.warm
        self.rec = Recorder()  # whatever the module records itself: dropped

    def _n(self, v: int) -> int:
        return max(8, int(v * SCALE))

    def given(self, sub: str, strategy: Any, fn: Callable, quick: int,
              thorough: int, shrink: bool = True) -> None:
        self.real.given(f"{self.source}.{sub}", strategy,
                        wrap(self.source, fn), self._n(quick),
                        self._n(thorough), shrink)

    def state_machine(self, sub: str, machine_cls: type, quick: int,
                      thorough: int, steps: int = 30) -> dict:
        # histories: the machine raises Violation itself; map IndexError only
        real = self.real
        n_before = len(real.rec.violations)
        holder = Ctx.state_machine(
            _SMCtx(real, self.source), f"{self.source}.{sub}", machine_cls,
            max(4, int(quick * SCALE)), max(4, int(thorough * SCALE)), steps)
        del n_before
        return holder

    def each(self, sub: str, cases: Iterable[Any], fn: Callable,
             max_violations: int = 1) -> int:
        stride = max(1, int(1 / SCALE))
        picked = (c for i, c in enumerate(cases) if i % stride == 0)
        return self.real.each(f"{self.source}.{sub}", picked,
                              wrap(self.source, fn), max_violations)

    def my_share(self, items: Iterable[Any]) -> Iterable[Any]:
        stride = max(1, int(1 / SCALE))
        for i, it in enumerate(Ctx.my_share(self, items)):
            if i % stride == 0:
                yield it


class _SMCtx(Ctx):
    """Context for re-running a history check: records into the real
    recorder, reports only out-of-bounds accesses."""

    def __init__(self, real: Ctx, source: str) -> None:
        super().__init__(real.prop, real.tier, real.seed, real.shard,
                         real.nshards, real.replay_dir)
        self.part = real.part
        self.warm = real.warm
        self.realctx = real
        self.source = source
        self.rec = Recorder()

    def violation(self, sub: str, case: Any, message: str) -> str:
        if "IndexError" in message:
            return self.realctx.violation(sub, case, message)
        self.realctx.rec.label(f"ignored_other_violation.{self.source}")
        return ""


# ----------------------------------------------------------------------------
# the extremes catalogue
# ----------------------------------------------------------------------------

def _circle_plan(n: int, rounds: int) -> list[list[int]]:
    """A complete consistent plan by the circle method (teams 1..n)."""
    teams = list(range(1, n + 1))
    days = []
    for r in range(rounds):
        rot = teams[:]
        for _d in range(n - 1):
            row = [0] * n
            for i in range(n // 2):
                a, b = rot[i], rot[n - 1 - i]
                if (r + i) % 2:
                    a, b = b, a
                row[a - 1] = b
                row[b - 1] = -a
            days.append(row)
            rot = [rot[0]] + [rot[-1]] + rot[1:-1]
    return days


def ttp_catalogue() -> list[dict]:
    cases = []
    for n, rounds in ((2, 2), (4, 1), (4, 2), (6, 2), (8, 1), (4, 3)):
        base = _circle_plan(n, rounds)
        days = len(base)
        for t in range(n):
            for sign in (1, -1):
                for where in ("first", "last", "all"):
                    plan = [row[:] for row in base]
                    rng = range(days) if where == "all" else (
                        [0] if where == "first" else [days - 1])
                    for d in rng:
                        plan[d][t] = sign * (t + 1)
                    cases.append({"kind": "ttp", "n": n, "rounds": rounds,
                                  "plan": plan,
                                  "what": f"team{t + 1}_{sign}_{where}"})
        cases.append({"kind": "ttp", "n": n, "rounds": rounds,
                      "plan": [[0] * n for _ in range(days)],
                      "what": "byes_everywhere"})
        cases.append({"kind": "ttp", "n": n, "rounds": rounds,
                      "plan": [[n] * n for _ in range(days)],
                      "what": "all_meet_last_team_home"})
        cases.append({"kind": "ttp", "n": n, "rounds": rounds,
                      "plan": [[-n] * n for _ in range(days)],
                      "what": "all_meet_last_team_away"})
        cases.append({"kind": "ttp", "n": n, "rounds": rounds,
                      "plan": [[-1] * n for _ in range(days)],
                      "what": "all_meet_first_team"})
        cases.append({"kind": "ttp", "n": n, "rounds": rounds, "plan": base,
                      "what": "circle"})
    return cases


def check_ttp(ctx: Ctx, case: dict) -> None:
    import numpy as np
    from moptipyapps.ttp.errors import Errors
    from moptipyapps.ttp.game_encoding import GameEncoding
    from moptipyapps.ttp.game_plan import GamePlan
    from moptipyapps.ttp.game_plan_space import GamePlanSpace
    from moptipyapps.ttp.instance import Instance
    from moptipyapps.ttp.plan_length import GamePlanLength
    n, rounds = case["n"], case["rounds"]
    m = np.array([[0 if i == j else 1 + abs(i - j) for j in range(n)]
                  for i in range(n)], dtype=np.int64)
    inst = Instance("x", m, [f"t{i}" for i in range(n)], rounds,
                    1, 3, 1, 3, 1, rounds * n - 1)
    y = GamePlan(inst)
    y[:, :] = np.array(case["plan"], dtype=np.int64)
    GamePlanSpace(inst).validate(y)
    e = Errors(inst)
    v1 = e.evaluate(y)
    v2 = e.evaluate(y)
    require(v1 == v2 and 0 <= v1, f"errors {v1} then {v2} on the same plan")
    GamePlanLength(inst).evaluate(y)
    enc = GameEncoding(inst)
    sp = enc.search_space()
    x = sp.create()
    x[:] = sp.blueprint
    enc.decode(x, y)
    enc.decode(x[::-1].copy(), y)
    e.evaluate(y)


def bp_catalogue() -> list[dict]:
    cases = []
    for W, H in ((1, 1), (5, 3), (3, 5), (63, 1), (64, 2)):
        for n_items in (1, 2, 3, 126, 127, 128, 129):
            # every item as large as the bin: every item opens a new bin
            cases.append({"kind": "bp", "W": W, "H": H,
                          "items": [[W, H, n_items]], "what": "own_bin_one_type"})
            if n_items <= 3:
                cases.append({"kind": "bp", "W": W, "H": H,
                              "items": [[H, W, 1]] * n_items if W != H
                              else [[W, H, 1]] * n_items,
                              "what": "own_bin_rotated_types"})
        cases.append({"kind": "bp", "W": W, "H": H, "items": [[1, 1, 1]],
                      "what": "one_item"})
        cases.append({"kind": "bp", "W": W, "H": H,
                      "items": [[1, 1, W * H]], "what": "one_full_bin"})
        cases.append({"kind": "bp", "W": W, "H": H,
                      "items": [[1, 1, W * H + 1]], "what": "one_bin_plus_one"})
    return cases


def check_bp(ctx: Ctx, case: dict) -> None:
    from moptipyapps.binpacking2d.packing_result import DEFAULT_OBJECTIVES
    from vf import gen_bp
    inst = gen_bp.build_instance(case)
    base = inst.get_standard_item_sequence()
    objs = [o(inst) for o in DEFAULT_OBJECTIVES]
    for enc in (1, 2):
        encoder = gen_bp.make_encoder(inst, enc)
        for x in (base, [-v for v in base], base[::-1]):
            for _rep in range(2):  # the encoder object is re-used
                y = gen_bp.decode(inst, x, enc, -1, encoder)
                require(1 <= y.n_bins <= inst.n_items, f"n_bins={y.n_bins}")
                for o in objs:
                    o.evaluate(y)


def mat_catalogue() -> list[dict]:
    cases = []
    for n in (2, 3, 4, 5, 9):
        for val in (1, 7, 127, 128, 32767):
            m = [[0 if i == j else val for j in range(n)] for i in range(n)]
            cases.append({"kind": "mat", "m": m, "what": f"const{val}_n{n}"})
        m = [[0 if i == j else 1 + ((i * 7 + j * 3) % 5) for j in range(n)]
             for i in range(n)]
        m = [[m[min(i, j)][max(i, j)] if i != j else 0 for j in range(n)]
             for i in range(n)]
        cases.append({"kind": "mat", "m": m, "what": f"mixed_n{n}"})
    cases.append({"kind": "mat", "m": [[0]], "what": "qap_1x1"})
    return cases


def check_mat(ctx: Ctx, case: dict) -> None:
    import numpy as np
    from moptipy.spaces.permutations import Permutations
    from moptipyapps.qap.instance import Instance as QInst
    from moptipyapps.qap.objective import QAPObjective
    m = np.array(case["m"], dtype=np.int64)
    n = len(m)
    perms = [list(range(n)), list(range(n))[::-1],
             list(range(1, n)) + [0]]
    q = QInst(m, m[::-1, ::-1].copy())
    qo = QAPObjective(q)
    for p in perms:
        qo.evaluate(np.array(p, dtype=Permutations.standard(n).dtype
                             if n > 1 else np.int64))
    if n < 2:
        return
    from moptipyapps.tsp.ea1p1_revn import TSPEA1p1revn, rev_if_not_worse
    from moptipyapps.tsp.fea1p1_revn import TSPFEA1p1revn, rev_if_h_not_worse
    from moptipyapps.tsp.instance import Instance as TInst
    from moptipyapps.tsp.tour_length import TourLength, tour_length
    inst = TInst("x", 0, m)
    tl = TourLength(inst)
    space = Permutations.standard(n)
    for p in perms:
        x = np.array(p, dtype=space.dtype)
        y = tl.evaluate(x)
        require(inst.tour_length_lower_bound <= y
                <= inst.tour_length_upper_bound, "tour length out of bounds")
        if n >= 3:
            h = np.zeros(inst.tour_length_upper_bound + 1, dtype=np.int64)
            for i in range(n - 1):
                for j in range(i + 1, n - 1 if i == 0 else n):
                    if i == 0 and j == n - 1:
                        continue
                    xx = x.copy()
                    y2 = rev_if_not_worse(i, j, n, inst, xx, int(y))
                    require(y2 == tour_length(inst, xx), "EA kernel length")
                    xx = x.copy()
                    y3 = rev_if_h_not_worse(i, j, n, inst, h, xx, int(y))
                    require(y3 == tour_length(inst, xx), "FEA kernel length")
    if n >= 4:
        from moptipy.api.execution import Execution
        for algo in (TSPEA1p1revn(inst), TSPFEA1p1revn(inst)):
            with Execution().set_solution_space(space).set_objective(tl)\
                    .set_algorithm(algo).set_max_fes(60).set_rand_seed(
                    1 + n).execute() as proc:
                proc.get_best_f()


def misc_catalogue() -> list[dict]:
    cases = [{"kind": "swap", "a": [0], "b": [0]},
             {"kind": "swap", "a": [0, 1], "b": [1, 0]},
             {"kind": "swap", "a": [0, 1], "b": [0, 1]},
             {"kind": "swap", "a": list(range(40)),
              "b": list(range(39, -1, -1))},
             {"kind": "swap", "a": list(range(7)),
              "b": [6, 0, 1, 2, 3, 4, 5]}]
    for n, rounds in ((2, 2), (3, 1), (3, 2), (5, 1), (5, 2), (7, 3),
                      (9, 1), (12, 7)):
        cases.append({"kind": "game", "n": n, "rounds": rounds})
    return cases


def check_misc(ctx: Ctx, case: dict) -> None:
    import numpy as np
    if case["kind"] == "swap":
        from moptipyapps.order1d.distances import swap_distance
        a = np.array(case["a"], dtype=np.int64)
        b = np.array(case["b"], dtype=np.int64)
        d = swap_distance(a, b)
        require(0 <= d < max(1, len(a)) + 1, f"swap distance {d}")
        swap_distance(b, a)
        return
    from moptipyapps.ttp.game_encoding import GameEncoding
    from moptipyapps.ttp.game_plan import GamePlan
    from moptipyapps.ttp.instance import Instance
    from moptipyapps.ttp.errors import Errors
    from moptipyapps.ttp.plan_length import GamePlanLength
    n, rounds = case["n"], case["rounds"]
    m = np.array([[0 if i == j else 1 + abs(i - j) for j in range(n)]
                  for i in range(n)], dtype=np.int64)
    try:
        inst = Instance("x", m, [f"t{i}" for i in range(n)], rounds,
                        1, 3, 1, 3, 1, rounds * n - 1)
    except ValueError:
        ctx.rec.label("game.instance_rejected")
        return
    enc = GameEncoding(inst)
    sp = enc.search_space()
    y = GamePlan(inst)
    x = sp.create()
    x[:] = sp.blueprint
    for xx in (x, x[::-1].copy(), np.roll(x, 1)):
        y.fill(0)
        enc.decode(xx, y)
        Errors(inst).evaluate(y)
        GamePlanLength(inst).evaluate(y)


def ann_catalogue() -> list[dict]:
    """Sequences of requests for generated network controllers that differ
    only in the number of outputs (larger first): a controller must never
    write more outputs / read more parameters than its caller asked for."""
    cases = []
    for sd in (2, 3, 4, 6):
        for layers in ([], [2], [3, 3], [sd, sd], [4, 2, 3]):
            cases.append({"kind": "ann", "state_dims": sd, "layers": layers,
                          "controls": [3, 1, 2, 1]})
            cases.append({"kind": "ann", "state_dims": sd, "layers": layers,
                          "controls": [1, 4, 1]})
    return cases


def check_ann(ctx: Ctx, case: dict) -> None:
    import numpy as np
    from moptipyapps.dynamic_control.controllers.ann import make_ann
    from vf import oracle_dc
    sd, layers = case["state_dims"], case["layers"]
    for cd in case["controls"]:
        ctrl = make_ann(sd, cd, list(layers))
        # the caller sizes its arrays for what it asked for
        n_par = oracle_dc.ann_param_count(sd, cd, layers)
        params = np.linspace(-1.0, 1.0, n_par)
        out = np.zeros(cd)
        state = np.linspace(0.5, 1.5, sd)
        ctrl.controller(state, 0.0, params, out)
        require(bool(np.all(np.isfinite(out))), f"non-finite output {out}")


def dc_catalogue() -> list[dict]:
    """Dynamic-control sequences: (a) a model objective that pulls its
    training data several times while the real objective keeps collecting
    (growing data sets between two begin() calls); (b) systems whose
    starting-state matrices have the wrong width - the constructor has to
    reject them, if it accepts them the kernels must still stay inside
    their arrays."""
    cases = []
    for name in ("stuart_landau", "lorenz", "three_coupled_oscillators"):
        for evals in ([1, 2], [2, 1, 3], [1, 1, 4]):
            cases.append({"kind": "model_objective", "system": name,
                          "evals": evals})
        for which in ("training", "test"):
            for delta in (-1, 1):
                cases.append({"kind": "system_shape", "system": name,
                              "which": which, "delta": delta})
    for sd, cd in ((2, 2), (3, 2), (3, 3), (2, 1)):
        for n_test, n_train in ((1, 2), (0, 2), (2, 0)):
            cases.append({"kind": "multi_run", "sd": sd, "cd": cd,
                          "tests": n_test, "training": n_train})
    return cases


def check_multi_run(ctx: Ctx, case: dict) -> None:
    """multi_run_ode with compiled controllers / equations that have several
    control values: every simulation gets arrays of the controller's size."""
    import numba
    import numpy as np
    from moptipyapps.dynamic_control.controllers.ann import make_ann
    from moptipyapps.dynamic_control.ode import multi_run_ode
    sd, cd = case["sd"], case["cd"]
    controller = make_ann(sd, cd, [sd])

    @numba.njit(cache=False)
    def eq(s: Any, _t: float, c: Any, out: Any) -> None:
        for i in range(sd):
            out[i] = -0.5 * s[i] + 0.1 * c[i % cd]

    shapes: list = []

    def collect(i: int, ode: Any, _j: float, _t: float) -> None:
        shapes.append((i, ode.shape))

    def states(k: int) -> list:
        return [np.linspace(0.2 + i, 0.7 + i, sd) for i in range(k)]

    params = np.linspace(-0.3, 0.3, controller.param_dims)
    multi_run_ode(states(case["tests"]), states(case["training"]), collect,
                  eq, controller.controller, params, cd, 9, 0.5, 7, 0.4,
                  -1, 0.1)
    want = [(i, (9, sd + cd + 1)) for i in range(case["tests"])] + [
        (case["tests"] + i, (7, sd + cd + 1))
        for i in range(case["training"])]
    require(shapes == want, lambda: f"multi_run_ode({sd} state, {cd} control "
            f"dims) produced results of shapes {shapes}, expected {want}")


def _dc_small(name: str) -> Any:
    from vf.props.c12 import small_system
    return small_system({"system": name, "training": 2, "steps": 12,
                         "time": 0.5})


def check_dc(ctx: Ctx, case: dict) -> None:
    import numpy as np
    from moptipyapps.dynamic_control.controllers.ann import make_ann
    from moptipyapps.dynamic_control.instance import Instance
    from moptipyapps.dynamic_control.model_objective import ModelObjective
    from moptipyapps.dynamic_control.objective import FigureOfMerit
    from moptipyapps.dynamic_control.system import System
    from moptipyapps.dynamic_control.system_model import SystemModel
    base = _dc_small(case["system"])
    sd, cd = base.state_dims, base.control_dims
    controller = make_ann(sd, cd, [sd])
    if case["kind"] == "model_objective":
        inst = SystemModel(base, controller, make_ann(sd + cd, sd, [sd]))
        real = FigureOfMerit(inst, True)
        real.initialize()
        mo = ModelObjective(real, inst.model)
        x = np.linspace(-0.2, 0.2, controller.param_dims)
        q = np.linspace(-0.1, 0.1, inst.model.param_dims)
        for k, n_eval in enumerate(case["evals"]):
            for e in range(n_eval):
                real.evaluate(x * (1.0 + 0.25 * (k + e)))
            mo.begin()  # documented: pulls the data, allocates accordingly
            v = mo.evaluate(q)
            require(v >= 0.0 or v != v, f"model objective value {v}")
        mo.end()
        return
    # a system whose test/training states have state_dims +- 1 columns
    good_test = np.array(base.test_starting_states, dtype=float)
    good_train = np.array(base.training_starting_states, dtype=float)

    def resize(a: Any) -> Any:
        if case["delta"] < 0:
            return np.ascontiguousarray(a[:, :-1])
        return np.hstack((a, np.ones((len(a), 1))))

    test = resize(good_test) if case["which"] == "test" else good_test
    train = resize(good_train) if case["which"] == "training" else good_train
    try:
        bad = System("bad", sd, cd, base.state_dim_mod, base.state_dims_in_j,
                     base.gamma, test, train, base.test_steps,
                     base.test_time, base.training_steps, base.training_time,
                     (0,))
    except (ValueError, TypeError):
        ctx.rec.label("malformed_system_rejected")
        return
    ctx.rec.label("malformed_system_accepted")
    bad.equations = base.equations  # type: ignore
    f = FigureOfMerit(Instance(bad, controller))
    f.initialize()
    f.evaluate(np.linspace(-0.2, 0.2, controller.param_dims))


def check_catalogue(ctx: Ctx, case: dict) -> None:
    kind = case["kind"]
    fn = {"ttp": check_ttp, "bp": check_bp, "mat": check_mat,
          "swap": check_misc, "game": check_misc, "ann": check_ann,
          "model_objective": check_dc, "system_shape": check_dc,
          "multi_run": check_multi_run}[kind]
    if kind in ("model_objective", "system_shape", "multi_run"):
        # this property judges memory accesses only: an object that the
        # package refuses to build (ValueError / TypeError from a
        # constructor) is a clean rejection here, whatever its reason
        try:
            fn(ctx, case)
        except (ValueError, TypeError) as e:
            if is_index_error(e):
                raise
            ctx.rec.label(f"{kind}_refused_by_package")
        return
    fn(ctx, case)


def _load_sources() -> dict[str, Any]:
    mods = {}
    for name in SOURCES:
        try:
            mods[name] = importlib.import_module(f"vf.props.{name}")
        except ModuleNotFoundError:
            continue
    return mods


def _make_subs() -> dict[str, Callable]:
    subs: dict[str, Callable] = {
        "catalogue": wrap("catalogue", check_catalogue, True)}
    for name, mod in _load_sources().items():
        for sub, fn in mod.SUBS.items():
            subs[f"{name}.{sub}"] = wrap(name, fn)
    return subs


SUBS = _make_subs()


def run(ctx: Ctx) -> None:
    require(ctx.boundscheck, "C13 must run in a bounds-checked worker")
    import numba
    if not numba.config.BOUNDSCHECK:
        raise RuntimeError("NUMBA_BOUNDSCHECK is not active")
    cat = ttp_catalogue() + bp_catalogue() + mat_catalogue() \
        + misc_catalogue() + ann_catalogue() + dc_catalogue()
    n = ctx.each("catalogue", ctx.my_share(cat), SUBS["catalogue"],
                 max_violations=3)
    ctx.rec.subreport("catalogue", cases_run=n,
                      catalogue_size=str(len(cat)))
    for name, mod in _load_sources().items():
        try:
            mod.run(Proxy(ctx, name))
        except IndexError as e:  # escaped from code that does not use sut()
            import traceback
            ctx.violation(f"{name}.escaped", {"source": name},
                          "IndexError escaped from the re-run of "
                          f"{name}: {e}\n{traceback.format_exc()[-1500:]}")
        ctx.rec.label(f"sources_run.{name}")
