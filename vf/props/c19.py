"""C19 - text forms of instances, solutions and result tables round-trip."""
from __future__ import annotations

import dataclasses
import os
import random
import shutil
import tempfile
from collections.abc import Mapping
from typing import Any

from vf import gen_bp, gen_misc, oracle_bp
from vf import fuzz
from vf.core import Ctx, HarnessError, require, sut

META = {'rule': 'objects: bin-packing instances of all 9 gen_bp size classes '
         '(multi-digit, repeated rows, storage-type edges, 10^12 bins) with '
         'names from the sanitised alphabet -> to_compact_str / '
         'from_compact_str and InstanceSpace.to_str / from_str; feasible '
         'packings (outputs of both decoders, shuffled guillotine layouts '
         'with bins up to 1500) -> PackingSpace.to_str / from_str; game '
         'plans of 16 shipped TTP instances (4..40 teams) with arbitrary '
         'values in -n..n -> str(plan) / GamePlanSpace.to_str / from_str; '
         'orderings of generated order1d instances -> OrderingSpace.to_str / '
         'from_str. Tables: 1..12 PackingResult records built from synthetic '
         'EndResults over real packings of 1..3 generated instances, 1..2 '
         'algorithms, 1..3 of the seven objectives as the optimised one, '
         'encoding None/name, goal / max FEs / max time absent, present or '
         'mixed (per record / per group), seeds up to 2^64-1 -> to_csv / '
         'from_csv; statistics via from_packing_results -> to_csv -> '
         'from_csv. Non-trivial: an instance with a multiplicity > 1 and a '
         'multi-digit dimension; a packing with >= 2 bins; a plan with home, '
         'away and bye entries; a non-identity ordering; a table with >= 2 '
         'different optimised objectives and mixed presence of at least one '
         "optional column Additionally 'fuzz_compact' and 'fuzz_plan': "
         'coverage-guided fuzzing (atheris/libFuzzer) of '
         'Instance.from_compact_str and GamePlanSpace.from_str: every '
         'accepted text must round-trip (all attributes) and have consistent '
         'derived attributes / lie inside the space; non-trivial fuzz inputs '
         '= distinct accepted texts.',
 'assumptions': ['objects are compared field by field with an explicit '
                 'comparer (array contents, dtype, all attributes; dataclass '
                 'records recursively incl. mapping keys and int/float/None '
                 "types) because the classes' own == only looks at the "
                 'end-result tuple',
                 'the log text of a packing is PackingSpace.to_str (one '
                 'line); Packing.__str__ (one row per line) is not parseable '
                 'by from_str and is not part of the pair under test',
                 'F10 (open, rooted in moptipy 0.9.136): statistics tables '
                 'in which some groups have a goal value and others do not '
                 'are excluded from the statistics sub-check while the '
                 'finding is active, and counted',
                 'F15 (open, rooted in moptipy 0.9.136): statistics tables '
                 'in which some group has one and the same time budget in '
                 'all its runs are excluded from the full comparison while '
                 'the finding is active (and counted); all their other '
                 'attributes are still compared',
                 'fuzz targets: inputs the independent oracle cannot '
                 'interpret and exceptions other than the documented '
                 "rejection are counted, not reported; libFuzzer's -seed "
                 'pins a campaign only approximately, the saved input is the '
                 'reproducible unit'],
 'shards': [4, 16],
 'technique': 'property-based testing: Hypothesis-generated instances, '
              'packings, game plans, orderings and heterogeneous record '
              'tables, written and parsed back, compared with an explicit '
              'field-wise comparer + coverage-guided fuzzing (atheris) of '
              'the compact-string and game-plan parsers with round-trip '
              'oracles',
 'level_text': 'Generated-input search over all text forms: thousands of '
               'objects and hundreds (thorough: thousands) of heterogeneous '
               'result / statistics tables per run; every attribute, mapping '
               'key and numeric type is compared. Shows absence of '
               'violations only on what was generated.',
 'level_note': 'Trusted: the comparer in vf/props/c19.py, Hypothesis. Known '
               'open finding F10 (dependency moptipy 0.9.136) is reproduced '
               'and its input class excluded from the statistics sub-check.'}


# ----------------------------------------------------------------------------
# comparer
# ----------------------------------------------------------------------------

def diff(a: Any, b: Any, path: str = "") -> list[str]:
    """All differences between two values (empty = equal).

    Numbers must agree in value *and* type (bool/int/float); ``None`` only
    equals ``None``; mappings must have the same key sets; dataclass records
    are compared attribute by attribute."""
    import numpy as np
    if a is None or b is None:
        return [] if a is b else [f"{path}: {a!r} vs {b!r}"]
    if isinstance(a, np.ndarray) or isinstance(b, np.ndarray):
        if type(a) is not type(b):
            return [f"{path}: type {type(a).__name__} vs {type(b).__name__}"]
        if a.dtype != b.dtype:
            return [f"{path}: dtype {a.dtype} vs {b.dtype}"]
        if a.shape != b.shape or not np.array_equal(a, b):
            return [f"{path}: array contents differ"]
        return []
    if dataclasses.is_dataclass(a) or dataclasses.is_dataclass(b):
        if type(a) is not type(b):
            return [f"{path}: type {type(a).__name__} vs {type(b).__name__}"]
        out: list[str] = []
        for f in dataclasses.fields(a):
            out.extend(diff(getattr(a, f.name), getattr(b, f.name),
                            f"{path}.{f.name}"))
        return out
    if isinstance(a, Mapping) or isinstance(b, Mapping):
        if not (isinstance(a, Mapping) and isinstance(b, Mapping)):
            return [f"{path}: {type(a).__name__} vs {type(b).__name__}"]
        out = []
        ka, kb = set(a.keys()), set(b.keys())
        if ka != kb:
            out.append(f"{path}: keys {sorted(ka - kb)} lost, "
                       f"{sorted(kb - ka)} new")
        for k in sorted(ka & kb):
            out.extend(diff(a[k], b[k], f"{path}[{k!r}]"))
        return out
    if isinstance(a, (list, tuple)) or isinstance(b, (list, tuple)):
        if type(a) is not type(b) or len(a) != len(b):
            return [f"{path}: {a!r} vs {b!r}"]
        out = []
        for i, (x, y) in enumerate(zip(a, b)):
            out.extend(diff(x, y, f"{path}[{i}]"))
        return out
    if type(a) is not type(b):
        return [f"{path}: {a!r} ({type(a).__name__}) vs {b!r} "
                f"({type(b).__name__})"]
    if a != b:
        return [f"{path}: {a!r} vs {b!r}"]
    return []


def instance_diff(a: Any, b: Any) -> list[str]:
    out = diff(a.view(type(a)), b.view(type(b)), "matrix")
    for attr in ("name", "bin_width", "bin_height", "n_items",
                 "n_different_items", "total_item_area", "lower_bound_bins"):
        out.extend(diff(getattr(a, attr), getattr(b, attr), attr))
    return out


# ----------------------------------------------------------------------------
# single objects
# ----------------------------------------------------------------------------

def check_instance(ctx: Ctx, case: dict) -> None:
    from moptipyapps.binpacking2d.instance import Instance
    from moptipyapps.binpacking2d.instgen.instance_space import (
        InstanceSpace,
    )
    ic = case["inst"]
    inst = sut("Instance()", gen_bp.build_instance, ic, case["name"])
    text = sut("to_compact_str", inst.to_compact_str)
    require(isinstance(text, str) and "\n" not in text,
            "compact string is not a single line")
    back = sut("from_compact_str", Instance.from_compact_str, text)
    why = instance_diff(inst, back)
    require(not why, lambda: f"compact string {text[:200]!r} parses to a "
            f"different instance: {why[:4]}")
    require(sut("to_compact_str", back.to_compact_str) == text,
            "second conversion gives a different text")
    # the instance space of the generator uses the same text form
    space = InstanceSpace(Instance("tpl", 5, 5, [[2, 2, 3]]))
    t2 = sut("InstanceSpace.to_str", space.to_str, [inst])
    require(t2 == text, "InstanceSpace.to_str differs from to_compact_str")
    b2 = sut("InstanceSpace.from_str", space.from_str, t2)
    require(isinstance(b2, list) and len(b2) == 1,
            "InstanceSpace.from_str does not return a one-element list")
    why = instance_diff(inst, b2[0])
    require(not why, lambda: f"InstanceSpace round trip differs: {why[:4]}")
    multi = any(r[2] > 1 for r in ic["items"])
    digits = max(max(r[0], r[1]) for r in ic["items"]) >= 10
    ctx.rec.case(case, nontrivial=multi and digits, labels=[
        "obj=instance", f"inst_cls={ic.get('cls', '?')}",
        f"inst_dtype={inst.dtype.name}",
        *(["inst_multiplicity"] if multi else []),
        *(["inst_multidigit"] if digits else [])])


def check_packing(ctx: Ctx, case: dict) -> None:
    from moptipyapps.binpacking2d.packing import Packing
    from moptipyapps.binpacking2d.packing_space import PackingSpace
    ic = case["inst"]
    inst = sut("Instance()", gen_bp.build_instance, ic, case["name"])
    if case["kind"] == "decoded":
        y = gen_bp.decode(inst, case["x"], case["enc"])
    else:
        y = gen_bp.build_packing(inst, case["rows"])
    rows = gen_bp.rows_of(y)
    why0 = oracle_bp.infeasibility(ic["W"], ic["H"], ic["items"], rows,
                                   y.n_bins)
    if why0:
        raise HarnessError(f"generated packing is not feasible: {why0[:3]}")
    space = PackingSpace(inst)
    text = sut("PackingSpace.to_str", space.to_str, y)
    require(isinstance(text, str), "to_str does not return a str")
    back = sut("PackingSpace.from_str", space.from_str, text)
    require(type(back) is Packing, f"from_str returns {type(back).__name__}")
    why = diff(y.view(type(y)), back.view(type(back)), "packing")
    require(not why, lambda: f"packing text parses back differently: "
            f"{why[:3]}; text={text[:120]!r}")
    require(back.instance is inst, "parsed packing lost its instance")
    require(type(back.n_bins) is int and back.n_bins == y.n_bins,
            lambda: f"n_bins {back.n_bins!r} vs {y.n_bins!r}")
    require(sut("PackingSpace.to_str", space.to_str, back) == text,
            "second conversion gives a different text")
    # the multi-line form lists the same numbers
    flat = str(y).replace("\n", ";")
    require(flat == text, "str(packing) and to_str list different values")
    ctx.rec.case(case, nontrivial=y.n_bins >= 2, labels=[
        "obj=packing", f"packing_kind={case['kind']}",
        f"packing_dtype={y.dtype.name}",
        "packing_bins=1" if y.n_bins == 1 else "packing_bins>=2"])


def check_plan(ctx: Ctx, case: dict) -> None:
    import numpy as np
    from moptipyapps.ttp.game_plan import GamePlan
    from moptipyapps.ttp.game_plan_space import GamePlanSpace
    from moptipyapps.ttp.instance import Instance
    if isinstance(case["inst"], dict):  # built by the public constructor
        nn, rr = int(case["inst"]["n"]), int(case["inst"]["rounds"])
        dm = np.array([[min(abs(i - j), nn - abs(i - j)) for j in range(nn)]
                       for i in range(nn)], dtype=np.int64)
        inst = Instance("gen", dm, [f"T{i + 1}" for i in range(nn)], rr,
                        1, 3, 1, 3, 1, rr * nn - 1)
    else:
        inst = Instance.from_resource(case["inst"])
    n, days = int(case["n"]), int(case["days"])
    if inst.n_cities != n or (n - 1) * inst.rounds != days:
        raise HarnessError("plan case does not match the shipped instance")
    space = GamePlanSpace(inst)
    plan = space.create()
    plan[:, :] = np.array(case["plan"], dtype=np.int64)
    text = sut("str(plan)", str, plan)
    t2 = sut("GamePlanSpace.to_str", space.to_str, plan)
    require(text == t2, "GamePlanSpace.to_str differs from str(plan)")
    back = sut("GamePlanSpace.from_str", space.from_str, text)
    require(type(back) is GamePlan, f"from_str gives {type(back).__name__}")
    why = diff(plan.view(type(plan)), back.view(type(back)), "plan")
    require(not why, lambda: f"plan text parses back differently: {why[:3]}")
    require(back.instance is inst, "parsed plan lost its instance")
    first = text.split("\n", 1)[0]
    require(first.split(";") == [str(v) for row in case["plan"] for v in row],
            "first line is not the flattened matrix")
    flat = [v for row in case["plan"] for v in row]
    nt = min(flat) < 0 < max(flat) and 0 in flat
    ctx.rec.case(case, nontrivial=nt, labels=[
        "obj=plan", f"plan_teams={n}", f"plan_rounds={inst.rounds}",
        *(["plan_two_digit"] if max(map(abs, flat)) >= 10 else [])])


def check_ordering(ctx: Ctx, case: dict) -> None:
    import numpy as np
    from moptipyapps.order1d.instance import Instance
    from moptipyapps.order1d.space import OrderingSpace
    oc = case["o1d"]
    objs = [(p, int(a), int(b)) for p, (a, b) in enumerate(oc["objs"])]
    dist = gen_misc.make_distance(oc["dist"])
    if oc["tags"] == "str":
        titles, tf = ("pos",), (lambda o: f"p{o[0]}")
    else:
        titles, tf = ("pos", "val"), (lambda o: (f"p{o[0]}", f"v{o[1]}"))
    inst = Instance.from_sequence_and_distance(
        list(objs), dist, oc["power"], int(oc["horizon"]), titles, tf)
    n = int(inst.n)
    if n < 2:  # moptipy's Permutations needs two different elements
        ctx.rec.case(case, nontrivial=False,
                     labels=["obj=ordering", "ordering_n<2_skipped"])
        return
    space = OrderingSpace(inst)
    perm = list(range(n))
    if case["perm_mode"] == "rng":
        random.Random(int(case["perm_seed"])).shuffle(perm)
    elif case["perm_mode"] == "reversed":
        perm.reverse()
    x = space.create()
    x[:] = np.array(perm, dtype=np.int64)
    text = sut("OrderingSpace.to_str", space.to_str, x)
    back = sut("OrderingSpace.from_str", space.from_str, text)
    why = diff(x, back, "ordering")
    require(not why, lambda: f"ordering text parses back differently: "
            f"{why[:3]}; text={text[:120]!r}")
    sut("OrderingSpace.validate", space.validate, back)
    lines = text.split("\n")
    require(lines[0].split(";") == [str(v) for v in perm],
            "first line is not the permutation")
    require(len(lines) == 3 + len(objs),
            lambda: f"{len(lines)} lines for {len(objs)} tagged objects")
    ctx.rec.case(case, nontrivial=perm != sorted(perm), labels=[
        "obj=ordering", f"ordering_dtype={x.dtype.name}",
        *(["ordering_merged"] if n < len(objs) else [])])


# ----------------------------------------------------------------------------
# record tables
# ----------------------------------------------------------------------------

def _excess_bins_class(name: str = "excessBins") -> Any:
    from moptipy.api.objective import Objective

    class ExcessBins(Objective):
        """User-defined objective: bins used above the lower bound (0 for an
        optimal packing) - values and lower bound 0 occur."""

        def __init__(self, instance: Any) -> None:
            super().__init__()
            self.instance = instance

        def evaluate(self, x: Any) -> int:
            return int(x.n_bins) - int(self.instance.lower_bound_bins)

        def lower_bound(self) -> int:
            return 0

        def upper_bound(self) -> int:
            return int(self.instance.n_items) - int(
                self.instance.lower_bound_bins)

        def is_always_integer(self) -> bool:
            return True

        def __str__(self) -> str:
            return name

    return ExcessBins


def build_results(case: dict) -> list:
    """The PackingResult records described by a table case."""
    from moptipy.evaluation.end_results import EndResult
    from moptipyapps.binpacking2d import packing_result as pr
    factories = list(pr.DEFAULT_OBJECTIVES)
    if case.get("custom"):
        factories.append(_excess_bins_class(
            case.get("custom_name") or "excessBins"))
    built = []
    for ent in case["insts"]:
        inst = sut("Instance()", gen_bp.build_instance, ent["inst"],
                   ent["name"])
        packs = [gen_bp.decode(inst, p["x"], p["enc"]) for p in ent["packs"]]
        objs = [f(inst) for f in factories]
        built.append((inst, packs, objs))
    cache: dict = {}
    res = []
    for r in case["recs"]:
        inst, packs, objs = built[r["inst"]]
        y = packs[r["pack"]]
        f = objs[r["obj"]]
        best = f.evaluate(y)
        tot_fe = r["li_fe"] + r["fe_extra"]
        er = EndResult(
            r["algo"], inst.name, str(f), r["enc"], r["seed"], best,
            r["li_fe"], r["li_t"], tot_fe, r["li_t"] + r["t_extra"],
            r["goal"],
            None if r["max_fes_extra"] is None else tot_fe + r[
                "max_fes_extra"], r["max_t"])
        bb = r.get("bounds_kept")
        if bb is None:
            res.append(sut("from_packing_and_end_result",
                           pr.from_packing_and_end_result, er, y, factories,
                           cache=cache))
        else:
            # a caller that computes only some of the bin-count bounds for
            # this record (records of one table may carry different sets)
            keys = sorted(pr._DEFAULT_BOUNDS)
            sub = {k: pr._DEFAULT_BOUNDS[k] for i, k in enumerate(keys)
                   if bb[i % len(bb)]} or {keys[0]: pr._DEFAULT_BOUNDS[keys[0]]}
            res.append(sut("from_packing_and_end_result",
                           pr.from_packing_and_end_result, er, y, factories,
                           sub))
    return res


def rec_key(er: Any) -> tuple:
    return (er.algorithm, er.instance, er.objective,
            "" if er.encoding is None else er.encoding,
            getattr(er, "rand_seed", None))


def table_labels(case: dict) -> tuple[list[str], bool]:
    recs = case["recs"]
    n_obj = len({r["obj"] for r in recs})
    mixed = []
    for col in ("goal", "max_fes_extra", "max_t"):
        have = {r[col] is not None for r in recs}
        if len(have) == 2:
            mixed.append(col)
    encs = {r["enc"] for r in recs}
    labels = [f"table_goal_mode={case.get('goal_mode', '?')}",
              "table_objectives=1" if n_obj == 1 else "table_objectives>=2",
              "table_recs=1" if len(recs) == 1 else (
                  "table_recs=2..5" if len(recs) <= 5 else "table_recs>=6")]
    labels.extend(f"table_mixed_{c}" for c in mixed)
    if None in encs and len(encs) > 1:
        labels.append("table_mixed_encoding")
    if any(r["seed"] >= 2 ** 63 for r in recs):
        labels.append("table_seed>=2^63")
    return labels, (n_obj >= 2 and bool(mixed))


def stats_goal_mixed(case: dict) -> bool:
    """F10 predicate on the input: some (algorithm, instance, objective,
    encoding) groups have a goal in every record, others do not."""
    groups: dict[tuple, bool] = {}
    for r in case["recs"]:
        key = (r["algo"], r["inst"], r["obj"], r["enc"])
        groups[key] = groups.get(key, True) and (r["goal"] is not None)
    return len(set(groups.values())) == 2


#: id of the open finding "constant max_time_millis comes back as
#: SampleStatistics" (dependency moptipy 0.9.136, like F10)
F_MAXTIME = "F15"
MAXTIME_PATH = "statistics.end_statistics.max_time_millis"


def stats_same_max_time(case: dict) -> bool:
    """F15 predicate on the input: some (algorithm, instance, objective,
    encoding) group has a time budget in every record and it is the same in
    all of them (includes every single-run group with a time budget)."""
    groups: dict[tuple, set] = {}
    for r in case["recs"]:
        key = (r["algo"], r["inst"], r["obj"], r["enc"])
        groups.setdefault(key, set()).add(r["max_t"])
    return any(len(v) == 1 and None not in v for v in groups.values())


def _is_f13_symptom(a: Any, b: Any) -> bool:
    """int budget v read back as the statistics record of n times v."""
    return type(a) is int and type(b).__name__ == "SampleStatistics" \
        and b.minimum == a and b.maximum == a and b.median == a \
        and b.mean_arith == a


def _reordered(m: Any, mode: int) -> dict:
    """The same mapping with another key (insertion) order."""
    keys = list(m)
    keys = keys[::-1] if mode == 1 else keys[1:] + keys[:1]
    return {k: m[k] for k in keys}


def scoped_round_trip(mod: Any, records: list, scope: str, what: str,
                      key_of: Any) -> None:
    """The records as part of a wider table: an own first column, then the
    columns of ``mod.CsvWriter(scope)``; read back through
    ``csv_select_scope(mod.CsvReader, columns, scope)``."""
    from pycommons.io.csv import csv_read, csv_select_scope, csv_write
    records = list(records)
    index = {id(r): i for i, r in enumerate(records)}

    def titles(w: Any) -> Any:
        yield "rowId"
        yield from w.get_column_titles()

    def row(w: Any, r: Any) -> Any:
        yield str(index[id(r)])
        yield from w.get_row(r)

    text = sut(f"csv_write({what}, scope={scope!r})", lambda: list(csv_write(
        data=records, setup=mod.CsvWriter(scope).setup, column_titles=titles,
        get_row=row)))

    def setup(columns: dict) -> tuple:
        rid = columns.pop("rowId")
        return rid, csv_select_scope(mod.CsvReader, columns, scope)

    def parse(info: tuple, cells: list) -> tuple:
        return int(cells[info[0]]), info[1].parse_row(cells)

    back = sut(f"csv_read({what}, scope={scope!r})", lambda: list(csv_read(
        rows=text, setup=setup, parse_row=parse)))
    require(len(back) == len(records), lambda: f"scope {scope!r}: "
            f"{len(records)} {what} records written, {len(back)} read")
    for rid, rec in back:
        why = key_of(records[rid], rec)
        require(not why, lambda: f"{what} record {rid} changed in the CSV "
                f"round trip under the column scope {scope!r}: {why[:5]}; "
                f"header {text[0]!r}")


def check_results_table(ctx: Ctx, case: dict) -> None:
    from moptipyapps.binpacking2d import packing_result as pr
    res = build_results(case)
    ko = int(case.get("key_order", 0))
    if ko:  # records assembled by a caller that fills its mappings otherwise
        res = [sut("PackingResult()", pr.PackingResult, r.end_result,
                   r.n_items, r.n_different_items, r.bin_width, r.bin_height,
                   _reordered(r.objectives, ko),
                   _reordered(r.objective_bounds, ko),
                   _reordered(r.bin_bounds, ko)) for r in res]
    tmp = tempfile.mkdtemp(prefix="vf_c19_")
    try:
        path = os.path.join(tmp, "results.txt")
        sut("packing_result.to_csv", pr.to_csv, res, path)
        back = sut("packing_result.from_csv",
                   lambda p: list(pr.from_csv(p)), path)
        require(len(back) == len(res),
                lambda: f"{len(res)} records written, {len(back)} read")
        require(all(type(b) is pr.PackingResult for b in back),
                "from_csv yields objects that are not PackingResult")
        orig = {rec_key(r.end_result): r for r in res}
        if len(orig) != len(res):
            raise HarnessError("records are not pairwise different")
        for b in back:
            k = rec_key(b.end_result)
            require(k in orig, lambda: f"record {k} appears from nowhere")
            why = diff(orig[k], b, "record")
            require(not why, lambda: f"record {k} changed in the CSV round "
                    f"trip: {why[:5]}")
        # writing what was read gives the same file
        path2 = os.path.join(tmp, "again.txt")
        sut("packing_result.to_csv", pr.to_csv, back, path2)
        with open(path, encoding="utf-8") as f1, \
                open(path2, encoding="utf-8") as f2:
            require(f1.read() == f2.read(),
                    "re-writing the parsed records gives a different file")
    finally:
        shutil.rmtree(tmp, ignore_errors=True)
    if case.get("scope"):
        scoped_round_trip(pr, res, case["scope"], "result",
                          lambda a, b: diff(a, b, "record"))
        ctx.rec.label("results_table_scoped")
    labels, nt = table_labels(case)
    ctx.rec.case(case, nontrivial=nt, labels=["obj=results_table", *labels])


def check_stats_table(ctx: Ctx, case: dict) -> None:
    from moptipyapps.binpacking2d import packing_statistics as ps
    mixed_goal = stats_goal_mixed(case)
    if mixed_goal and "F10" in ctx.active_findings and not ctx.replaying:
        ctx.rec.exclude("F10")
        return
    modulo_f13 = False
    if stats_same_max_time(case) and F_MAXTIME in ctx.active_findings \
            and not ctx.replaying:
        # excluded from the full comparison (and counted); everything except
        # the one attribute of the finding is still compared
        ctx.rec.exclude(F_MAXTIME)
        modulo_f13 = True
    # (statistics need identical bin-count bounds within a group: the
    # per-record subsets of the result tables are not used here)
    res = build_results({**case, "recs": [
        {**r, "bounds_kept": case.get("stats_bounds")}
        for r in case["recs"]]})
    stats: list = []
    sut("from_packing_results", ps.from_packing_results, res, stats.append)
    groups = {(r["algo"], r["inst"], r["obj"], r["enc"])
              for r in case["recs"]}
    require(len(stats) == len(groups),
            lambda: f"{len(groups)} setups, {len(stats)} statistics records")
    ko = int(case.get("key_order", 0))
    if ko:  # records assembled by a caller that fills its mappings otherwise
        stats = [sut("PackingStatistics()", ps.PackingStatistics,
                     q.end_statistics, q.n_items, q.n_different_items,
                     q.bin_width, q.bin_height, _reordered(q.objectives, ko),
                     _reordered(q.objective_bounds, ko),
                     _reordered(q.bin_bounds, ko)) for q in stats]
    tmp = tempfile.mkdtemp(prefix="vf_c19_")
    try:
        path = os.path.join(tmp, "stats.txt")
        sut("packing_statistics.to_csv", ps.to_csv, stats, path)
        back = sut("packing_statistics.from_csv",
                   lambda p: list(ps.from_csv(p)), path)
        require(len(back) == len(stats),
                lambda: f"{len(stats)} records written, {len(back)} read")
        orig = {rec_key(s.end_statistics): s for s in stats}
        for b in back:
            require(type(b) is ps.PackingStatistics,
                    "from_csv yields objects that are not PackingStatistics")
            k = rec_key(b.end_statistics)
            require(k in orig, lambda: f"record {k} appears from nowhere")
            why = diff(orig[k], b, "statistics")
            if modulo_f13 and _is_f13_symptom(
                    orig[k].end_statistics.max_time_millis,
                    b.end_statistics.max_time_millis):
                why = [w for w in why if not w.startswith(MAXTIME_PATH)]
            require(not why, lambda: f"statistics record {k} changed in the "
                    f"CSV round trip: {why[:5]}")
        path2 = os.path.join(tmp, "again.txt")
        sut("packing_statistics.to_csv", ps.to_csv, back, path2)
        with open(path, encoding="utf-8") as f1, \
                open(path2, encoding="utf-8") as f2:
            require(f1.read() == f2.read(),
                    "re-writing the parsed statistics gives a different file")
    finally:
        shutil.rmtree(tmp, ignore_errors=True)
    if case.get("scope"):
        def changed(x: Any, y: Any) -> list:
            why = diff(x, y, "statistics")
            if modulo_f13 and _is_f13_symptom(
                    x.end_statistics.max_time_millis,
                    y.end_statistics.max_time_millis):
                why = [w for w in why if not w.startswith(MAXTIME_PATH)]
            return why
        scoped_round_trip(ps, stats, case["scope"], "statistics", changed)
        ctx.rec.label("stats_table_scoped")
    if case.get("stats_bounds"):
        ctx.rec.label(f"stats_bin_bounds_kept={sum(case['stats_bounds'])}")
    if modulo_f13:
        ctx.rec.label(f"stats_checked_modulo_{F_MAXTIME}")
        return
    labels, nt = table_labels(case)
    if mixed_goal:
        labels.append("stats_goal_mixed_over_groups")
    if len(groups) > 1:
        labels.append("stats_groups>=2")
    if len(groups) < len(case["recs"]):
        labels.append("stats_group_with_several_runs")
    ctx.rec.case(case, nontrivial=nt, labels=["obj=stats_table", *labels])


SUBS = {"instance": check_instance, "packing": check_packing,
        "plan": check_plan, "ordering": check_ordering,
        "results_table": check_results_table,
        "stats_table": check_stats_table}
SUBS["fuzz_compact"] = fuzz.make_sub("compact")
SUBS["fuzz_plan"] = fuzz.make_sub("plan")


def run(ctx: Ctx) -> None:
    from moptipyapps.ttp.instance import Instance as TTP
    have = set(TTP.list_resources())
    ttp = tuple(n for n in gen_misc.TTP_NAMES if n in have)
    mi = ctx.pick(14, 30)
    ctx.given("instance", gen_misc.instance_text_cases(max_items=mi),
              check_instance, quick=1200, thorough=16 * 2000)
    ctx.given("packing", gen_misc.packing_text_cases(max_items=mi),
              check_packing, quick=800, thorough=16 * 1600)
    ctx.given("plan", gen_misc.plan_text_cases(ttp), check_plan,
              quick=500, thorough=16 * 1200)
    ctx.given("ordering", gen_misc.ordering_text_cases(), check_ordering,
              quick=500, thorough=16 * 1200)
    tables = gen_misc.record_tables(max_recs=12)
    ctx.given("results_table", tables, check_results_table,
              quick=300, thorough=16 * 300)
    if "F10" in ctx.active_findings or F_MAXTIME in ctx.active_findings:
        # keep the statistics sub-check busy behind the excluded classes
        tables = gen_misc.record_tables(
            max_recs=12,
            goal_modes=("all", "none", "per_group", "all", "none",
                        "per_record") if "F10" in ctx.active_findings
            else ("per_group", "per_record", "all", "none"),
            time_modes=("distinct", "none", "distinct", "none", "all",
                        "per_record") if F_MAXTIME in ctx.active_findings
            else ("distinct", "per_record", "all", "none"))
    ctx.given("stats_table", tables, check_stats_table,
              quick=400, thorough=16 * 400)
    fuzz.run_target(ctx, "compact", quick_runs=50_000,
                    thorough_runs=16 * 150_000)
    fuzz.run_target(ctx, "plan", quick_runs=120_000,
                    thorough_runs=16 * 400_000)
