"""C09 - QAP objective = flow-distance sum within its bounds; QAPLIB loading."""
from __future__ import annotations

from typing import Any

from hypothesis import strategies as st

from vf import gen_mat
from vf import oracle_tsp as o
from vf import fuzz
from vf.core import Ctx, HarnessError, require, sut

META = {'rule': 'objective: n in 1..8 (thorough 12), non-negative flow / distance '
         'matrices by construction from the classes {0/1, <127, mixed '
         'magnitude palettes, constant, zero diagonal, one matrix all zero '
         "and the other with an entry >= 128, up to 10^12, 'edge' = trivial "
         'upper bound within +-3 of 127 / 255 / 32767 / 65535 / 2^31-1 / '
         '2^32-1}, upper bound always < 10^15, 10 input dtype pairs, 1-2 '
         'drawn permutations (dtype of the permutation space or int64); '
         'non-trivial = n >= 3 and both matrices non-constant. loader: '
         'QAPLIB text of (n, flows, distances) wrapped by the line-wrapping '
         'generator (one line, one token per line, row-wise, fixed width, '
         'random cuts; runs of blanks and tabs, leading / trailing blanks, '
         'blank lines, with / without line ends); non-trivial = a line holds '
         'numbers of two blocks (n|flows|distances) or a matrix row is split '
         'over lines. reject: the same texts with 1.. trailing numbers '
         'removed or 1..3 surplus numbers on the last data line must raise '
         "ValueError; large: n in {64, 127..129, 200, 255..258, 300} "
         "through the constructor or QAPLIB text, matrices from an "
         "arithmetic formula, one shuffled permutation; distinct = distinct "
         "cases Additionally 'fuzz_qaplib' (texts that are certainly valid "
         "must load): "
         'coverage-guided fuzzing (atheris/libFuzzer, token-level custom '
         'mutator, seed corpus on even shards / empty corpus on odd shards) '
         'of from_qaplib_stream with the oracle inside the target: whenever '
         'a text is accepted, n, flows and distances must equal the '
         'independently tokenised number stream; non-trivial fuzz inputs = '
         'distinct accepted texts.',
 'assumptions': ['reference values are Python big-int double sums; true min '
                 '/ max over all n! permutations (n <= 7) by int64 '
                 'enumeration, exact because every value is < 10^15 '
                 '(vf/oracle_tsp.py)',
                 'bounds are only required to be valid (lb <= value <= ub), '
                 'not to equal the rearrangement bound',
                 'numbers in QAPLIB text are separated by blanks / tabs only',
                 'fuzz targets: inputs the independent oracle cannot '
                 'interpret and exceptions other than the documented '
                 "rejection are counted, not reported; libFuzzer's -seed "
                 'pins a campaign only approximately, the saved input is the '
                 'reproducible unit'],
 'shards': [4, 16],
 'technique': 'property-based testing: Hypothesis-generated flow and '
              'distance matrices, permutations and line-wrapped QAPLIB texts '
              'against a big-integer reference + coverage-guided fuzzing '
              '(atheris) of the QAPLIB loader with an independent '
              'token-stream oracle',
 'level_text': 'randomised exploration up to n = 8 (thorough 12) incl. all '
               'storage types the instance can select; bounds compared with '
               'the exhaustive optimum for n <= 7',
 'level_note': 'trusted: numpy array construction, Python integers'}


# ----------------------------------------------------------------------------
# strategies
# ----------------------------------------------------------------------------

@st.composite
def objective_cases(draw: Any, max_n: int) -> dict:
    mat = draw(gen_mat.qap_matrices(min_n=1, max_n=max_n))
    n = mat["n"]
    perms = [list(draw(gen_mat.perm(n)))]
    if draw(st.booleans()):
        perms.append(list(draw(gen_mat.perm(n))))
    case = {"mat": mat, "perms": perms,
            "x_dtype": draw(st.sampled_from(["space", "int64"]))}
    if 2 <= n <= 6 and draw(st.integers(0, 2)) == 0:
        # quarters of the way from the trivial bounds to the true optimum
        case["bounds"] = [draw(st.integers(0, 4)), draw(st.integers(0, 4))]
    return case


def qaplib_tokens(n: int, flows: list[list[int]],
                  dists: list[list[int]]) -> list[str]:
    toks = [str(n)]
    for mat in (flows, dists):
        for row in mat:
            toks.extend(str(v) for v in row)
    return toks


@st.composite
def loader_cases(draw: Any, max_n: int) -> dict:
    mat = draw(gen_mat.qap_matrices(min_n=1, max_n=max_n))
    n = mat["n"]
    toks = qaplib_tokens(n, mat["flows"], mat["dists"])
    lines = draw(gen_mat.wrapped_lines(toks, row_len=n, tabs=True))
    return {"n": n, "flows": mat["flows"], "dists": mat["dists"],
            "lines": lines}


@st.composite
def reject_cases(draw: Any, max_n: int) -> dict:
    mat = draw(gen_mat.qap_matrices(min_n=1, max_n=max_n))
    n = mat["n"]
    toks = qaplib_tokens(n, mat["flows"], mat["dists"])
    defect = draw(st.sampled_from(["truncated"] * 4 + ["surplus"] * 3
                                  + ["empty"]))
    if defect == "empty":
        lines = draw(st.sampled_from([[], [""], ["  ", "\n"]]))
        return {"n": n, "flows": mat["flows"], "dists": mat["dists"],
                "lines": lines, "defect": defect}
    if defect == "truncated":
        k = draw(st.one_of(st.just(1), st.integers(1, n),
                           st.integers(1, len(toks) - 1)))
        toks = toks[:len(toks) - k]
        lines = draw(gen_mat.wrapped_lines(toks, row_len=n, tabs=True))
    else:
        counts = draw(gen_mat.cut_points(len(toks), n))
        extra = draw(st.lists(st.integers(0, 99), min_size=1, max_size=3))
        counts[-1] += len(extra)
        toks = toks + [str(v) for v in extra]
        lines = draw(gen_mat.wrapped_lines(toks, row_len=n, tabs=True,
                                           counts=counts))
    return {"n": n, "flows": mat["flows"], "dists": mat["dists"],
            "lines": lines, "defect": defect}


# ----------------------------------------------------------------------------
# checks
# ----------------------------------------------------------------------------

def _const(mat: list[list[int]]) -> bool:
    return len({v for r in mat for v in r}) <= 1


def _tour(x: list[int], how: str) -> Any:
    import numpy as np
    if how == "space":
        from moptipy.spaces.permutations import Permutations
        arr = Permutations.standard(len(x)).create() if len(x) > 1 else \
            np.zeros(1, dtype=np.int8)
        arr[:] = x
        return arr
    return np.array(x, dtype=np.int64)


def check_objective(ctx: Ctx, case: dict) -> None:
    import numpy as np
    from moptipyapps.qap.instance import Instance
    from moptipyapps.qap.objective import QAPObjective
    mat = case["mat"]
    n, flows, dists = mat["n"], mat["flows"], mat["dists"]
    rlb, rub = o.qap_rearrangement_bounds(flows, dists)
    if rub >= 10 ** 15:
        raise HarnessError("generator produced an upper bound >= 10^15")
    darr = np.array(dists, dtype=np.dtype(mat["d_dtype"]))
    farr = np.array(flows, dtype=np.dtype(mat["f_dtype"]))
    given = case.get("bounds")
    mn = mx = None
    if given is not None and 2 <= n <= 6:
        # valid bounds supplied by the caller (as from_resource does with the
        # best known values): between the trivial bound and the true optimum
        mn, mx = o.qap_min_max(flows, dists)
        glb = rlb + (mn - rlb) * given[0] // 4
        gub = rub - (rub - mx) * given[1] // 4
        inst = sut("qap Instance(bounds)", Instance, darr, farr, glb, gub)
        require(glb <= inst.lower_bound <= mn and mx <= inst.upper_bound
                <= gub, lambda: f"supplied bounds [{glb}, {gub}] (true "
                f"optimum range [{mn}, {mx}]) became "
                f"[{inst.lower_bound}, {inst.upper_bound}]")
    else:
        inst = sut("qap Instance()", Instance, darr, farr)
    require(inst.n == n, lambda: f"n={inst.n}, expected {n}")
    require(inst.distances.tolist() == dists,
            lambda: f"stored distances differ: {inst.distances.tolist()} "
            f"vs {dists} (dtype {inst.distances.dtype})")
    require(inst.flows.tolist() == flows,
            lambda: f"stored flows differ: {inst.flows.tolist()} vs {flows} "
            f"(dtype {inst.flows.dtype})")
    lb, ub = inst.lower_bound, inst.upper_bound
    require(type(lb) is int and type(ub) is int,
            lambda: f"bounds have types {type(lb)}, {type(ub)}")
    for arr, what in ((inst.distances, "distances"), (inst.flows, "flows")):
        require(arr.dtype.kind in "iu"
                and o.dtype_limit(arr.dtype.name)[1] >= ub,
                lambda: f"{what} stored as {arr.dtype.name}, which cannot "
                f"hold the upper bound {ub}")
    f = QAPObjective(inst)
    require(f.lower_bound() == lb and f.upper_bound() == ub,
            "objective bounds differ from the instance bounds")
    for p in case["perms"]:
        x = _tour(p, case["x_dtype"])
        got = sut("QAPObjective.evaluate", f.evaluate, x)
        want = o.qap_value(flows, dists, p)
        require(type(got) is int, lambda: f"evaluate returned {type(got)}")
        require(got == want, lambda: f"permutation {p}: evaluate={got}, "
                f"double sum={want} (storage {inst.flows.dtype.name})")
        require(lb <= got <= ub,
                lambda: f"value {got} of {p} outside [{lb}, {ub}]")
        require(x.tolist() == p, "evaluate modified the permutation")
    labels = [f"cls={mat['cls']}", f"dtype={inst.flows.dtype.name}",
              f"in={mat['d_dtype']}/{mat['f_dtype']}",
              "n=1" if n == 1 else ("n=2" if n == 2 else (
                  "n=3..7" if n <= 7 else "n>=8"))]
    if 2 <= n <= 7:
        mn, mx = o.qap_min_max(flows, dists)
        require(lb <= mn, lambda: f"lower bound {lb} > true minimum {mn}")
        require(mx <= ub, lambda: f"upper bound {ub} < true maximum {mx}")
        labels.append("bounds_vs_exhaustive_optimum")
        if lb == mn or ub == mx:
            labels.append("bound_tight")
    labels.append("bounds=rearrangement" if (lb, ub) == (rlb, rub)
                  else "bounds!=rearrangement")
    if mn is not None:
        labels.append("bounds_supplied")
    if max(max(r) for r in flows + dists) > 10 ** 12:
        labels.append("entry>1e12")
    for e in gen_mat.QAP_EDGES:
        if abs(rub - e) <= 3:
            labels.append(f"at_limit_{e}:" + ("above" if rub > e
                                               else "at_or_below"))
    require(darr.tolist() == dists and farr.tolist() == flows,
            "the input arrays were modified")
    if rub == 0 and max(max(r) for r in flows + dists) > 127:
        labels.append("one_matrix_zero_other>127")
    ctx.rec.case(case, nontrivial=(n >= 3 and not _const(flows)
                                   and not _const(dists)), labels=labels)


def _consistent(case: dict, toks: list[str]) -> None:
    got = [t for ln in case["lines"] for t in ln.split()]
    if got != toks:
        raise HarnessError("generated text does not carry the expected "
                           f"tokens: {got[:20]} vs {toks[:20]}")


def check_loader(ctx: Ctx, case: dict) -> None:
    from moptipyapps.qap.instance import Instance
    n, flows, dists, lines = (case["n"], case["flows"], case["dists"],
                              case["lines"])
    _consistent(case, qaplib_tokens(n, flows, dists))
    inst = sut("from_qaplib_stream", Instance.from_qaplib_stream,
               iter(lines))
    require(inst.n == n, lambda: f"loaded n={inst.n}, text says {n}")
    require(inst.flows.tolist() == flows,
            lambda: f"loaded flows {inst.flows.tolist()} != {flows}")
    require(inst.distances.tolist() == dists,
            lambda: f"loaded distances {inst.distances.tolist()} != {dists}")
    counts = gen_mat.token_counts(lines)
    blocks = gen_mat.split_stats(counts, [1, n * n, n * n])
    rows = gen_mat.split_stats(counts, [1] + [n] * (2 * n))
    labels = ["loader:lines=1" if len(counts) == 1 else (
        "loader:one_token_per_line" if max(counts) == 1 else
        "loader:wrapped")]
    p = 0
    for c in counts:
        if p < 1 < p + c:
            labels.append("loader:line_has_n+flows")
        if p < 1 + n * n < p + c:
            labels.append("loader:line_has_flows+distances")
        p += c
    if rows["split"]:
        labels.append("loader:row_split")
    if any("\t" in ln for ln in lines):
        labels.append("loader:tabs")
    if any(not ln.strip() for ln in lines):
        labels.append("loader:blank_lines")
    ctx.rec.case(case, nontrivial=(blocks["shared"] or rows["split"]),
                 labels=labels)


def check_reject(ctx: Ctx, case: dict) -> None:
    from moptipyapps.qap.instance import Instance
    lines = case["lines"]
    full = qaplib_tokens(case["n"], case["flows"], case["dists"])
    got = [t for ln in lines for t in ln.split()]
    if case["defect"] == "truncated":
        ok = len(got) < len(full) and got == full[:len(got)]
    elif case["defect"] == "surplus":
        ok = len(got) > len(full) and got[:len(full)] == full and \
            sum(gen_mat.token_counts(lines)[:-1]) < len(full)
    else:
        ok = not got
    if not ok:
        raise HarnessError(f"generated text is not {case['defect']}")
    try:
        inst = sut("from_qaplib_stream", Instance.from_qaplib_stream,
                   iter(lines), allowed=(ValueError,))
    except ValueError:
        ctx.rec.case(case, nontrivial=(len(got) > 1),
                     labels=[f"reject:{case['defect']}"])
        return
    raise_accept(case, inst)


def raise_accept(case: dict, inst: Any) -> None:
    require(False, f"{case['defect']} QAPLIB text ({len(case['lines'])} "
            f"lines) was accepted as n={inst.n}, flows="
            f"{inst.flows.tolist()}, distances={inst.distances.tolist()}")


# ----------------------------------------------------------------------------
# sizes around and beyond 256 (QAPLIB goes up to n = 256, tai256c; the
# constructor documents no size limit): matrices from an arithmetic formula,
# so that a case stays a handful of integers
# ----------------------------------------------------------------------------

@st.composite
def large_cases(draw: Any) -> dict:
    n = draw(st.sampled_from([64, 127, 128, 129, 200, 255, 256, 257, 258,
                              300]))
    return {"n": n, "mod": draw(st.sampled_from([2, 7, 100, 251, 1000])),
            # sparse: eight small entries per matrix, so that the bound (and
            # with it the storage type) stays tiny although n is large
            "sparse": draw(st.sampled_from([False, False, True])),
            "a": draw(st.integers(1, 50)), "b": draw(st.integers(1, 50)),
            "c": draw(st.integers(0, 9)), "seed": draw(st.integers(0, 999)),
            "via": draw(st.sampled_from(["constructor", "text"]))}


def _large_matrix(n: int, a: int, b: int, c: int, mod: int,
                  sparse: bool = False) -> list:
    if sparse:
        m = [[0] * n for _ in range(n)]
        for k in range(8):
            i = (a * k + c + 7 * k * k) % n
            j = (b * k + c + 1 + 3 * k) % n
            if i != j:
                m[i][j] = 1 + (k + mod) % 3
        m[n - 1][(a + c) % (n - 1)] = 2  # the last index is in use
        m[(b + c) % (n - 1)][n - 1] = 1
        return m
    return [[0 if i == j else (a * i + b * j + c * i * j + a) % mod
             for j in range(n)] for i in range(n)]


def check_large(ctx: Ctx, case: dict) -> None:
    import random

    import numpy as np
    from moptipyapps.qap.instance import Instance
    from moptipyapps.qap.objective import QAPObjective
    n, mod = case["n"], case["mod"]
    sparse = bool(case.get("sparse"))
    flows = _large_matrix(n, case["a"], case["b"], case["c"], mod, sparse)
    dists = _large_matrix(n, case["b"], case["c"] + 1, case["a"], mod)
    if sparse:  # the same few positions, so that some products are not 0
        dists = _large_matrix(n, case["a"], case["b"], case["c"], mod + 1,
                              True)
    rlb, rub = o.qap_rearrangement_bounds(flows, dists)
    if case["via"] == "constructor":
        inst = sut(f"qap Instance() for n={n}", Instance,
                   np.array(dists, dtype=np.int64),
                   np.array(flows, dtype=np.int64))
    else:
        toks = qaplib_tokens(n, flows, dists)
        lines = [toks[0]] + [" ".join(toks[1 + r * n:1 + (r + 1) * n])
                             for r in range(2 * n)]
        inst = sut(f"from_qaplib_stream for n={n}",
                   Instance.from_qaplib_stream, iter(lines))
    require(inst.n == n, lambda: f"n={inst.n}, expected {n}")
    require(inst.flows.tolist() == flows
            and inst.distances.tolist() == dists,
            f"stored matrices differ from the given ones (n={n})")
    lb, ub = inst.lower_bound, inst.upper_bound
    require(rlb <= lb <= ub <= rub, lambda: f"n={n}: bounds [{lb}, {ub}] "
            f"outside the rearrangement bounds [{rlb}, {rub}]")
    for arr in (inst.flows, inst.distances):
        require(o.dtype_limit(arr.dtype.name)[1] >= ub,
                lambda: f"n={n}: stored as {arr.dtype.name}, upper bound "
                f"{ub}")
    f = QAPObjective(inst)
    rnd = random.Random(case["seed"])  # noqa: S311 - part of the case
    p = list(range(n))
    rnd.shuffle(p)
    for q in (p, list(range(n)), list(range(n - 1, -1, -1))):
        x = _tour(q, "space")
        got = sut("QAPObjective.evaluate", f.evaluate, x)
        want = o.qap_value(flows, dists, q)
        require(type(got) is int and got == want,
                lambda: f"n={n}: evaluate={got!r}, double sum={want} "
                f"(storage {inst.flows.dtype.name}, permutation "
                f"{'identity' if q[0] == 0 and q[-1] == n - 1 else q[:6]})")
        require(lb <= got <= ub,
                lambda: f"n={n}: {got} outside [{lb}, {ub}]")
    ctx.rec.case(case, nontrivial=True, labels=[
        f"large:n={n}", f"large:via={case['via']}",
        "large:sparse" if sparse else "large:dense",
        f"large:dtype={inst.flows.dtype.name}"])


SUBS = {"objective": check_objective, "loader": check_loader,
        "reject": check_reject, "large": check_large}
SUBS["fuzz_qaplib"] = fuzz.make_sub("qaplib")


def run(ctx: Ctx) -> None:
    max_n = ctx.pick(8, 12)
    ctx.given("objective", objective_cases(max_n), check_objective,
              quick=1200, thorough=16 * 5000)
    ctx.given("loader", loader_cases(max_n), check_loader,
              quick=600, thorough=16 * 2500)
    ctx.given("reject", reject_cases(max_n), check_reject,
              quick=200, thorough=16 * 800)
    ctx.given("large", large_cases(), check_large, quick=12,
              thorough=16 * 40, shrink=False)
    fuzz.run_target(ctx, "qaplib", quick_runs=120_000,
                    thorough_runs=16 * 1_000_000)
