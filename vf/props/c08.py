"""C08 - the TTP plan length is the tournament walk plus bye penalties, lies
within its bounds, grows when a game is replaced by a day off, and its minimum
over the error-free four-team plans is the published optimum."""
from __future__ import annotations

from typing import Any

from vf import gen_ttp, oracle_ttp
from vf.core import Ctx, HarnessError, Violation, require, sut

META = {
    "rule": "three sub-checks. (1) 'length': ttp.Instance objects built "
            "through the public constructor from generated distance "
            "matrices (n in {2,4,6,8,10}, rounds 1..3, symmetric and "
            "asymmetric, zero distances between different teams, 8 value "
            "classes from 0..3 up to 10^12 and next to the int8/int16/int32 "
            "storage-type edges), generated team names and constraint "
            "settings, x plans of the 7 families of vf/gen_ttp.py (uniform, "
            "circle method, day-wise matchings, perturbed, byes, self-play, "
            "periodic columns); the value is compared with the walk of "
            "vf/oracle_ttp.travel_length, with the bounds, and for every "
            "non-zero entry of the plan the entry is set to 0 and the value "
            "must grow. A case is non-trivial when some team has an away "
            "streak of at least two games (so that it travels between two "
            "foreign venues); distinct = distinct (instance, plan). "
            "(2) 'optimum': for circ4, con4, gal4, incr4, line4, nl4, sup4 "
            "the 1920 feasible plans (enumerated by the oracle) must all be "
            "error-free and the smallest plan length must equal "
            "get_optimal_plan_length_bounds(). (3) 'optimum_block' "
            "(thorough tier): all 12^6 day-wise consistent plans of each of "
            "the seven instances in blocks of 12^4: Errors == 0 exactly for "
            "the oracle-feasible plans and no error-free plan is shorter "
            "than the published optimum",
    "assumptions": [
        "the walk and the penalty 2*max+1 are computed by "
        "vf/oracle_ttp.py (pure Python)",
        "the optimum clause quantifies over day-wise consistent complete "
        "plans (every error-free plan is one, by C07)",
        "odd team counts are outside the domain: the Instance constructor "
        "rejects them"],
    "shards": [4, 16],
    "technique": "property-based testing: Hypothesis-generated distance "
                 "matrices, instances and game plans against an independent "
                 "travel walk; exhaustive enumeration of the four-team plans "
                 "for the published optima",
    "level_text": "generated plans and instances compared with an "
                  "independent walk; the optimum clause is exhaustive over "
                  "the 12^6 day-wise consistent plans of the seven bundled "
                  "four-team instances (thorough tier)",
    "level_note": "trusts vf/oracle_ttp.py; quick tier takes the feasible "
                  "set of the optimum clause from the oracle's enumeration",
}

FOUR_TEAM = ("circ4", "con4", "gal4", "incr4", "line4", "nl4", "sup4")


# ----------------------------------------------------------------------------
# travel length of one plan
# ----------------------------------------------------------------------------

def check_length(ctx: Ctx, case: dict) -> None:
    from moptipyapps.ttp.game_plan_space import GamePlanSpace
    from moptipyapps.ttp.plan_length import GamePlanLength
    ic, plan = case["inst"], case["plan"]
    n, rounds, dist = ic["n"], ic["rounds"], ic["dist"]
    inst = sut("ttp.Instance()", gen_ttp.build_instance, ic)
    require(gen_ttp.plan_of(inst) == dist,
            "the instance does not hold the given distance matrix")
    require(tuple(inst.teams) == tuple(ic["teams"]),
            f"team names {inst.teams!r} differ from {ic['teams']!r}")
    space = sut("GamePlanSpace()", GamePlanSpace, inst)
    y = gen_ttp.build_plan(inst, plan, space)
    sut("GamePlanSpace.validate", space.validate, y)
    obj = sut("GamePlanLength()", GamePlanLength, inst)
    pen = oracle_ttp.bye_penalty(dist)
    require(obj.bye_penalty == pen, f"bye penalty {obj.bye_penalty}, "
            f"twice the largest distance plus one is {pen}")
    lb = sut("lower_bound", obj.lower_bound)
    ub = sut("upper_bound", obj.upper_bound)
    v = sut("GamePlanLength.evaluate", obj.evaluate, y)
    require(int(v) == v, f"value {v!r} is not an integer")
    v = int(v)
    want = oracle_ttp.travel_length(plan, dist)
    require(v == want, lambda: f"plan length {v}, tournament walk gives "
            f"{want} (dist={dist}, plan={plan})")
    require(lb <= v <= ub, f"value {v} outside [{lb}, {ub}]")
    require(gen_ttp.plan_of(y) == plan, "evaluate changed the plan")
    # every scheduled game replaced by a day off: the value must grow
    positions = 0
    smallest_gain = None
    for d, row in enumerate(plan):
        for t, e in enumerate(row):
            if e == 0:
                continue
            y[d, t] = 0
            vb = int(sut("GamePlanLength.evaluate", obj.evaluate, y))
            y[d, t] = e
            positions += 1
            require(vb > v, lambda: f"replacing the game of team {t + 1} on "
                    f"day {d} by a day off changes the length from {v} to "
                    f"{vb} (dist={dist}, plan={plan})")
            require(vb <= ub, f"value {vb} exceeds upper_bound() {ub}")
            if positions % 7 == 1:
                mod = [list(r) for r in plan]
                mod[d][t] = 0
                wb = oracle_ttp.travel_length(mod, dist)
                require(vb == wb, lambda: f"plan length {vb} after a day "
                        f"off for team {t + 1} on day {d}, walk gives {wb}")
            gain = vb - v
            if smallest_gain is None or gain < smallest_gain:
                smallest_gain = gain
    longest_away = oracle_ttp.away_streak_max(plan)
    byes = sum(1 for row in plan for e in row if e == 0)
    labels = [f"n={n}", f"rounds={rounds}", f"gen={case['cls']}",
              f"dist={ic.get('dcls', '?')}", f"dtype={inst.dtype.name}",
              "symmetric" if ic.get("sym") else "asymmetric",
              "byes=0" if byes == 0 else ("byes=1..3" if byes <= 3
                                          else "byes>3")]
    if longest_away >= 2:
        labels.append("away_streak>=2")
    if smallest_gain == 1:
        labels.append("bye_gain_exactly_1")
    if any(dist[i][j] == 0 for i in range(n) for j in range(n) if i != j):
        labels.append("zero_distance")
    if oracle_ttp.self_play(plan):
        labels.append("self_play")
    if not oracle_ttp.inconsistencies(plan) and byes == 0:
        labels.append("complete_consistent")
    ctx.rec.case(case, nontrivial=longest_away >= 2, labels=labels)


# ----------------------------------------------------------------------------
# published optima of the four-team instances
# ----------------------------------------------------------------------------

_CACHE: dict[tuple, Any] = {}


def _enum(sett: tuple) -> oracle_ttp.Enum4:
    key = ("enum", sett)
    if key not in _CACHE:
        _CACHE[key] = oracle_ttp.Enum4(4, 2, sett)
    return _CACHE[key]


def _feasible(sett: tuple) -> list[tuple[int, ...]]:
    """Feasible plans of a four-team double round robin (pure function of
    the setting; shared by all instances of a process)."""
    key = ("feasible", sett)
    if key not in _CACHE:
        _CACHE[key] = _enum(sett).feasible_plans()
    return _CACHE[key]


def _load(name: str) -> tuple[Any, tuple, list[list[int]]]:
    from moptipyapps.ttp.instance import Instance
    inst = sut("Instance.from_resource", Instance.from_resource, name)
    if inst.n_cities != 4 or inst.rounds != 2:
        raise HarnessError(f"{name} is not a four-team double round robin")
    sett = (inst.home_streak_min, inst.home_streak_max, inst.away_streak_min,
            inst.away_streak_max, inst.separation_min, inst.separation_max)
    return inst, tuple(map(int, sett)), gen_ttp.plan_of(inst)


def check_optimum(ctx: Ctx, case: dict) -> None:
    """Minimum length over the feasible plans == published optimum."""
    import numpy as np
    from moptipyapps.ttp.errors import Errors
    from moptipyapps.ttp.game_plan_space import GamePlanSpace
    from moptipyapps.ttp.plan_length import GamePlanLength
    name = case["name"]
    inst, sett, dist = _load(name)
    bounds = sut("get_optimal_plan_length_bounds",
                 inst.get_optimal_plan_length_bounds)
    lo, hi = int(bounds[0]), int(bounds[1])
    en = _enum(sett)
    feas = _feasible(sett)
    if not feas:
        raise HarnessError(f"no feasible plan for {name}")
    errs, length = Errors(inst), GamePlanLength(inst)
    y = GamePlanSpace(inst).create()
    rows = np.array(en.rows, dtype=y.dtype)
    best = None
    best_model = None
    n_best = 0
    for idx in feas:
        for d, k in enumerate(idx):
            y[d] = rows[k]
        e = int(sut("Errors.evaluate", errs.evaluate, y))
        require(e == 0, lambda: f"{name}: feasible plan {en.plan(idx)} has "
                f"{e} errors")
        v = int(sut("GamePlanLength.evaluate", length.evaluate, y))
        w = oracle_ttp.travel_length(en.plan(idx), dist)
        require(v == w, lambda: f"{name}: plan length {v}, walk {w} for "
                f"{en.plan(idx)}")
        if best is None or v < best:
            best, n_best = v, 1
        elif v == best:
            n_best += 1
        if best_model is None or w < best_model:
            best_model = w
    require(lo == hi, f"{name}: published optimum is an interval {bounds}")
    require(best == lo, f"{name}: smallest length over the {len(feas)} "
            f"error-free plans is {best}, published optimum {bounds}")
    ctx.rec.case(case, nontrivial=True, labels=[f"optimum:{name}"])
    ctx.rec.subreport(
        f"optimum {name}", exhaustive=True,
        domain="all feasible plans (enumerated by vf/oracle_ttp.Enum4."
        "feasible_plans, evaluated with Errors and GamePlanLength)",
        feasible=len(feas), optimum=best, optimal_plans=n_best,
        published=lo)


def check_optimum_block(ctx: Ctx, case: dict) -> None:
    """12^4 plans of one instance: Errors == 0 <=> oracle-feasible, and no
    error-free plan is shorter than the published optimum."""
    import numpy as np
    from moptipyapps.ttp.errors import Errors
    from moptipyapps.ttp.game_plan_space import GamePlanSpace
    from moptipyapps.ttp.plan_length import GamePlanLength
    name = case["name"]
    k0, k1 = case["prefix"]
    inst, sett, _dist = _load(name)
    lo = int(inst.get_optimal_plan_length_bounds()[0])
    en = _enum(sett)
    errs, length = Errors(inst), GamePlanLength(inst)
    y = GamePlanSpace(inst).create()
    rows = np.array(en.rows, dtype=y.dtype)
    code, ev = en.code, en.eval_code
    e_eval, l_eval = errs.evaluate, length.evaluate
    rng = range(len(en.rows))
    plans = zero = 0
    shortest = None
    y[0] = rows[k0]
    y[1] = rows[k1]
    c1 = code[0][k0] | code[1][k1]
    for k2 in rng:
        y[2] = rows[k2]
        c2 = c1 | code[2][k2]
        for k3 in rng:
            y[3] = rows[k3]
            c3 = c2 | code[3][k3]
            for k4 in rng:
                y[4] = rows[k4]
                c4 = c3 | code[4][k4]
                for k5 in rng:
                    y[5] = rows[k5]
                    plans += 1
                    e = e_eval(y)
                    ok = ev(c4 | code[5][k5])[2]
                    if (e == 0) != ok:
                        raise Violation(
                            f"{name}: Errors = {e} but the plan is "
                            f"{'feasible' if ok else 'infeasible'}: "
                            f"{gen_ttp.plan_of(y)}")
                    if e == 0:
                        zero += 1
                        v = int(l_eval(y))
                        if v < lo:
                            raise Violation(
                                f"{name}: error-free plan of length {v} < "
                                f"published optimum {lo}: "
                                f"{gen_ttp.plan_of(y)}")
                        if shortest is None or v < shortest:
                            shortest = v
    st = ctx.__dict__.setdefault("_c08_blocks", {}).setdefault(
        name, {"plans": 0, "error_free": 0, "blocks": 0, "attained": 0})
    st["plans"] += plans
    st["error_free"] += zero
    st["blocks"] += 1
    if shortest == lo:
        st["attained"] += 1
    ctx.rec.case(case, nontrivial=zero > 0,
                 labels=["optimum_block", f"optimum_block:{name}"])


SUBS = {"length": check_length, "optimum": check_optimum,
        "optimum_block": check_optimum_block}


def run(ctx: Ctx) -> None:
    ctx.each("optimum", ctx.my_share({"name": nm} for nm in FOUR_TEAM),
             check_optimum)
    if ctx.thorough:
        blocks = [{"name": nm, "prefix": [k0, k1]} for nm in FOUR_TEAM
                  for k0 in range(12) for k1 in range(12)]
        ctx.each("optimum_block", ctx.my_share(blocks), check_optimum_block)
        if not ctx.warm:
            for nm, st in sorted(ctx.__dict__.get("_c08_blocks",
                                                  {}).items()):
                ctx.rec.subreport(
                    f"optimum_all_plans {nm}", exhaustive=True,
                    domain="all 12^6 day-wise consistent four-team plans "
                    "(summed over shards)", plans=st["plans"],
                    error_free=st["error_free"], blocks=st["blocks"],
                    blocks_attaining_published_optimum=st["attained"])
    ctx.given("length", gen_ttp.length_cases(), check_length,
              quick=2400, thorough=16 * 8000)
