"""C17 - generated packing instances keep the template's size and bin need."""
from __future__ import annotations

import random
from typing import Any

from vf import gen_bp, gen_misc, oracle_bp, oracle_instgen
from vf.core import Ctx, HarnessError, require, sut

META = {
    "rule": "templates: shipped instances with <= 61 items (a*, beng*, "
            "asqas*, cl*_020/040) and constructed instances (gen_bp size "
            "classes tiny/small/medium/int8-edge/>126 items/thin int16-edge "
            "and thin 2^30 bins - bins above 10^9 are "
            "rejected by InstanceSpace with ValueError = clean rejection -, "
            "guillotine-cut k-bin "
            "instances, tiny instances with <= 7 items, instances whose "
            "items are at most half the bin in both directions), stored in a fitting "
            "orientation in 7 of 8 draws (otherwise InstanceSpace may reject "
            "the template with ValueError = clean rejection, counted); "
            "vectors of the admissible length 2*(n_items-min_bins)+2k, "
            "k in 0..12 slack pairs: phase-1 part constant-special / "
            "alternating / free, entries from {-1, -0.0, 0.0, 1, "
            "nextafter(+-1, 0), nextafter(0, +-1), +-0.5} mixed with uniform "
            "floats in [-1, 1], slack cutters mostly with |cutter| >= 0.75; "
            "hardness objectives on a ~5 % subsample (max_fes 2..6, 1..2 "
            "runs); a case is non-trivial when the vector has k >= 2 slack "
            "pairs of which at least two actually removed material (counted "
            "by the independent re-play); distinct = distinct (template, "
            "vector) pairs",
    "assumptions": [
        "packability is certified by an explicit layout: the re-play of the "
        "documented cutting sequence (vf/oracle_instgen.replay) keeps piece "
        "positions, the layout is judged by vf/oracle_bp.infeasibility "
        "against the items of the decoded instance; for templates with <= 7 "
        "items and bin sides <= 30 an exhaustive guillotine-packing search "
        "decides packability independently of the re-play",
        "a disagreement between re-play and decoder is not a violation by "
        "itself: packability is then certified with the bottom-left decoders "
        "(<= 2000 seeded permutations, label replay_divergent) or the case "
        "is counted as inconclusive",
        "templates with n_items == min_bins (no split possible; "
        "InstanceDecoder.get_x_dim rejects them) are decoded and checked, "
        "but the hardness objectives are not evaluated on them because the "
        "bin-count objective has equal lower and upper bound there "
        "(Hardness raises ValueError by design)",
        "Hardness is evaluated with a tiny inner budget (max_fes 2..6, "
        "1..2 runs per setup)",
        "templates with two large bin sides (e.g. 16380 x 16380) or one "
        "side of 10^9 (admitted by InstanceSpace) are not generated: their "
        "decoded instances contain items like 16380 x 2 or 10^9 x 3, for "
        "which Instance.__new__ needs minutes and more than 8 GB (cost "
        "limit of the constructor, DESIGN.md O3); shipped templates go up "
        "to 2750 x 1220, generated ones to 16386 x 4"],
    "shards": [4, 16],
    "technique": "property-based testing: Hypothesis-generated templates x "
                 "real vectors (extreme values, float neighbours, many slack "
                 "pairs) against an independent re-play of the cutting "
                 "sequence, a geometric feasibility oracle and an exhaustive "
                 "guillotine-packing search for tiny templates",
    "level_text": "Generated-input search: decoded instances are checked for "
                  "name / bin / item count, the area window "
                  "((min_bins-1)*A, min_bins*A], lower bound == min_bins, "
                  "an explicit feasible layout in min_bins bins, "
                  "repeatability, and the objectives' ranges. Shows absence "
                  "of violations only on what was generated.",
    "level_note": "Trusted: vf/oracle_instgen.py, vf/oracle_bp.py, "
                  "Hypothesis. Hardness only on a 5 % subsample with a tiny "
                  "inner budget.",
}

TINY_ITEMS = 7
TINY_SIDE = 30
BL_TRIES = 2000


def inst_fields(inst: Any) -> dict:
    return {"name": inst.name, "W": int(inst.bin_width),
            "H": int(inst.bin_height), "n_items": int(inst.n_items),
            "n_different": int(inst.n_different_items),
            "area": int(inst.total_item_area),
            "lb": int(inst.lower_bound_bins), "dtype": inst.dtype.name,
            "rows": [[int(v) for v in r] for r in inst]}


def build_template(tpl: dict) -> Any:
    from moptipyapps.binpacking2d.instance import Instance
    if tpl["kind"] == "shipped":
        return Instance.from_resource(tpl["name"])
    return gen_bp.build_instance(tpl, name="tpl")


def certify_bl(inst: Any, W: int, H: int, items: list[list[int]],
               bins: int, seed: int, tries: int) -> bool:
    """Search a feasible packing into ``bins`` bins with both bottom-left
    decoders over seeded random signed permutations; the certificate is
    judged by the feasibility oracle."""
    rnd = random.Random(seed)
    base = list(inst.get_standard_item_sequence())
    encs = [gen_bp.make_encoder(inst, 1), gen_bp.make_encoder(inst, 2)]
    # first try: decreasing area, then random
    order = sorted(base, key=lambda t: -items[t - 1][0] * items[t - 1][1])
    for t in range(tries):
        perm = list(order) if t == 0 else rnd.sample(base, len(base))
        if t > 0:
            perm = [v if rnd.random() < 0.5 else -v for v in perm]
        enc = 1 + (t & 1)
        y = gen_bp.decode(inst, perm, enc, encoder=encs[enc - 1])
        if int(y.n_bins) <= bins:
            rows = gen_bp.rows_of(y)
            if not oracle_bp.infeasibility(W, H, items, rows, int(y.n_bins)):
                return True
    return False


def check_decode(ctx: Ctx, case: dict) -> None:
    import numpy as np
    from moptipyapps.binpacking2d.instance import Instance
    from moptipyapps.binpacking2d.instgen.errors import Errors
    from moptipyapps.binpacking2d.instgen.inst_decoding import (
        InstanceDecoder,
    )
    from moptipyapps.binpacking2d.instgen.instance_space import (
        InstanceSpace,
    )
    tpl_case = case["tpl"]
    template = build_template(tpl_case)
    labels = [f"tpl={tpl_case['kind']}"]
    try:
        space = sut("InstanceSpace()", InstanceSpace, template,
                    allowed=(ValueError,))
    except ValueError:
        ctx.rec.case(case, nontrivial=False,
                     labels=[*labels, "rejected_template"])
        return
    W, H = int(template.bin_width), int(template.bin_height)
    n = int(template.n_items)
    mb = min(int(template.lower_bound_bins), n)
    require(space.min_bins == mb and space.n_items == n
            and space.bin_width == W and space.bin_height == H,
            "InstanceSpace does not carry the template's data")
    d1 = 2 * (n - mb)
    slack = case["slack"]
    k = len(slack)
    if len(case["p1"]) < d1:
        raise HarnessError("phase-1 pool too short")
    xs = [float(v) for v in case["p1"][:d1]]
    for s, c in slack:
        xs.extend((float(s), float(c)))
    x = np.array(xs, dtype=np.float64)
    decoder = InstanceDecoder(space)
    if n > mb:
        require(sut("get_x_dim", decoder.get_x_dim, 0) == d1,
                "get_x_dim(0) is not 2*(n_items - min_bins)")

    # --- decode
    y: list = []
    x_bytes = x.tobytes()
    sut("decode", decoder.decode, x, y)
    require(len(y) == 1 and isinstance(y[0], Instance),
            lambda: f"decode left {y!r} in the destination list")
    require(x.tobytes() == x_bytes, "decode modified its input vector")
    inst = y[0]
    got = inst_fields(inst)
    want_name = template.name + "n"
    require(got["name"] == want_name,
            lambda: f"name {got['name']!r}, expected {want_name!r}")
    require((got["W"], got["H"]) == (W, H),
            lambda: f"bin {got['W']}x{got['H']}, template {W}x{H}")
    require(got["n_items"] == n,
            lambda: f"{got['n_items']} items, template has {n}")
    sut("InstanceSpace.validate", space.validate, y)
    # --- a valid instance: attributes consistent with its rows
    rows = got["rows"]
    require(all(len(r) == 3 and min(r) >= 1 for r in rows),
            lambda: f"malformed item rows {rows[:5]}")
    require(got["n_different"] == len(rows)
            and got["n_items"] == sum(r[2] for r in rows)
            and got["area"] == sum(r[0] * r[1] * r[2] for r in rows),
            "instance attributes inconsistent with its rows")
    require(got["dtype"] == oracle_bp.expected_dtype(W, H, rows),
            lambda: f"dtype {got['dtype']}")
    # --- area window and lower bound
    ba = W * H
    area = got["area"]
    require((mb - 1) * ba < area <= mb * ba, lambda: (
        f"total item area {area} is outside ({(mb - 1) * ba}, {mb * ba}] "
        f"(min_bins={mb}, bin {W}x{H}, k={k} slack pairs); "
        f"items={rows[:12]}"))
    require(got["lb"] == mb, lambda: (
        f"lower_bound_bins={got['lb']} but the template's min_bins={mb}; "
        f"items={rows[:12]}"))

    # --- repeatability
    y2: list = []
    sut("decode (2nd)", decoder.decode, x.copy(), y2)
    require(inst_fields(y2[0]) == got, lambda: (
        f"decoding the same vector twice gives different instances: "
        f"{got['rows'][:8]} vs {inst_fields(y2[0])['rows'][:8]}"))
    other = template
    y3: list = [other, other]
    sut("decode (non-empty destination)", decoder.decode, x.copy(), y3)
    require(len(y3) == 2 and y3[1] is other
            and inst_fields(y3[0]) == got,
            "decoding into a non-empty list gives a different result")
    fresh: list = []
    sut("decode (new decoder)", InstanceDecoder(
        InstanceSpace(template)).decode, x.copy(), fresh)
    require(inst_fields(fresh[0]) == got,
            "a second decoder object decodes the vector differently")

    # --- packability
    rp = oracle_instgen.replay(W, H, mb, n, xs)
    lay = oracle_instgen.layout_rows(rp["pieces"], rows)
    cuts = rp["slack_cuts"]
    tiny = n <= TINY_ITEMS and max(W, H) <= TINY_SIDE
    if lay is not None:
        why = oracle_bp.infeasibility(W, H, rows, lay, mb)
        if why:
            raise HarnessError(f"re-play produced an infeasible layout: "
                               f"{why[:3]}")
        require(rp["area"] == area, "area differs although items agree")
        labels.append("replay_agrees")
    else:
        cuts = -1
        if certify_bl(inst, W, H, rows, mb, int(case["pseed"]), BL_TRIES):
            labels.append("replay_divergent")
        elif not tiny:
            ctx.rec.inconc("replay_divergent_uncertified")
            labels.append("replay_divergent_uncertified")
    if tiny:
        expanded = [(r[0], r[1]) for r in rows for _ in range(r[2])]
        ok = oracle_instgen.guillotine_packable(W, H, mb, expanded)
        if not ok:
            ok = certify_bl(inst, W, H, rows, mb, int(case["pseed"]),
                            BL_TRIES)
        require(ok, lambda: (
            f"items {rows} cannot be cut out of {mb} bins {W}x{H} with "
            f"guillotine cuts (exhaustive search) and {BL_TRIES} bottom-left "
            f"decodings found no packing into {mb} bins either"))
        labels.append("tiny_exhaustive")

    # --- similarity objective
    errors = sut("Errors()", Errors, space)
    e = sut("Errors.evaluate", errors.evaluate, y)
    require(isinstance(e, float) and 0.0 <= e <= 1.0,
            lambda: f"Errors.evaluate = {e!r} not in [0, 1]")
    e_t = sut("Errors.evaluate(template)", errors.evaluate, [template])
    e_t2 = sut("Errors.evaluate(template)", errors.evaluate, template)
    require(e_t == 0 and e_t2 == 0, lambda: (
        f"Errors.evaluate(template) = {e_t!r} / {e_t2!r}, expected 0"))
    require(sut("Errors.evaluate", errors.evaluate, inst) == e,
            "Errors differs between list and instance argument")

    # --- hardness (subsample)
    hard = case.get("hard")
    if hard and n > mb:
        from moptipyapps.binpacking2d.instgen.errors_and_hardness import (
            ErrorsAndHardness,
        )
        from moptipyapps.binpacking2d.instgen.hardness import Hardness
        mf, nr = int(hard["max_fes"]), int(hard["n_runs"])
        hd = Hardness(max_fes=mf, n_runs=nr)
        h1 = sut("Hardness.evaluate", hd.evaluate, y)
        h2 = sut("Hardness.evaluate", hd.evaluate, y)
        h3 = sut("Hardness.evaluate", Hardness(
            max_fes=mf, n_runs=nr).evaluate, inst)
        require(isinstance(h1, float) and 0.0 <= h1 <= 1.0,
                lambda: f"Hardness.evaluate = {h1!r} not in [0, 1]")
        require(h1 == h2 == h3, lambda: (
            f"Hardness of the same instance: {h1!r}, {h2!r} (same object), "
            f"{h3!r} (new object)"))
        # the same objective object is also used for other instances in
        # between (the template carries a similar name): still the same value
        ht = sut("Hardness.evaluate(template)", hd.evaluate, template)
        h4 = sut("Hardness.evaluate", hd.evaluate, y)
        ht2 = sut("Hardness.evaluate(template)", Hardness(
            max_fes=mf, n_runs=nr).evaluate, template)
        require(h4 == h1 and ht == ht2, lambda: (
            f"Hardness depends on what the objective object evaluated "
            f"before: generated instance {h1!r} then {h4!r} (after the "
            f"template), template {ht!r} vs {ht2!r} on a new object"))
        if mf % 2 == 0:
            # the executors parameter is documented as an Iterable: a
            # one-shot iterator must serve every evaluation, too
            from moptipyapps.binpacking2d.instgen.hardness import (
                DEFAULT_EXECUTORS,
            )
            hg = Hardness(max_fes=mf, n_runs=nr,
                          executors=iter(DEFAULT_EXECUTORS))
            h5 = sut("Hardness.evaluate", hg.evaluate, y)
            h6 = sut("Hardness.evaluate (second call)", hg.evaluate, y)
            require(h5 == h1 and h6 == h1, lambda: (
                f"Hardness with the executors given as an iterator: {h5!r} "
                f"then {h6!r}, with the default tuple {h1!r}"))
            labels.append("hardness_iterator_executors")
        eh = sut("ErrorsAndHardness.evaluate", ErrorsAndHardness(
            space, max_fes=mf, n_runs=nr).evaluate, y)
        require(isinstance(eh, float) and 0.0 <= eh <= 1.0,
                lambda: f"ErrorsAndHardness.evaluate = {eh!r} not in [0, 1]")
        labels.append("hardness_evaluated")
    elif hard:
        labels.append("hardness_skipped_n_items==min_bins")

    labels.append("k=0" if k == 0 else ("k=1" if k == 1 else
                                        ("k=2..5" if k <= 5 else "k=6..12")))
    labels.append("min_bins=1" if mb == 1 else (
        "min_bins=2..3" if mb <= 3 else "min_bins>=4"))
    if n == mb:
        labels.append("n_items==min_bins")
    if cuts >= 0:
        labels.append("slack_cuts=0" if cuts == 0 else (
            "slack_cuts=1" if cuts == 1 else "slack_cuts>=2"))
        if k > rp["slack_pairs"]:
            labels.append("slack_stopped_at_min_area")
    if area == (mb - 1) * ba + 1:
        labels.append("area_at_minimum")
    elif area == mb * ba:
        labels.append("area_perfect")
    else:
        labels.append("area_between")
    if got["n_different"] < n:
        labels.append("merged_equal_items")
    ctx.rec.case({"tpl": tpl_case, "x": xs}, nontrivial=(k >= 2 and cuts >= 2),
                 labels=labels,
                 sample={"tpl": tpl_case, "x": xs, "decoded": rows[:20]})


SUBS = {"decode": check_decode}


def run(ctx: Ctx) -> None:
    names = gen_misc.shipped_names(max_cl_items=ctx.pick(40, 60))
    ctx.given("decode",
              gen_misc.decoder_cases(names, max_items=ctx.pick(14, 30)),
              check_decode, quick=2400, thorough=16 * 4000)
