"""C16 - controller blueprints and system equations compute their formulas."""
from __future__ import annotations

import math
from typing import Any

import numpy as np

from vf import gen_dc, oracle_dc
from vf.core import Ctx, require, sut

META = {
    "rule": "one case = one evaluation point (state, time, parameter vector) "
            "of one bundled blueprint or system, or one generated network "
            "architecture with 6 evaluation points; states are drawn from 7 "
            "classes (normal 1e-2..10, tiny 1e-12..1e-6, large 1e3..1e6, "
            "exact zeros, small integers, mixed magnitudes), parameters from "
            "the box [-32,32]^n (uniform, unit vectors, corners, near zero, "
            "integers, sparse); partially linear anchors uniform, around the "
            "state, on the integer grid (exact ties) or duplicated. A case is "
            "non-trivial when the parameter vector has >= 2 non-zero entries "
            "and all state components are non-zero; partially linear: "
            "additionally the nearest anchor is not the first one and the "
            "state is not within 1e-9 (relative) of a tie; systems: state and "
            "control non-zero; architectures: >= 1 hidden layer. distinct = "
            "distinct (blueprint, state, time, parameters) tuples",
    "assumptions": [
        "references are written in vf/oracle_dc.py without any code of the "
        "package: exact rational evaluation (fractions) of polynomials, "
        "anchor distances and system equations; layer-wise math.atan / "
        "math.exp networks",
        "tolerances (kernels are compiled with fastmath): polynomials, "
        "partially linear laws and networks 1e-9 relative to the sum of the "
        "absolute values of the added terms (plus a first-order rounding "
        "bound of the weighted sums inside networks); systems 1e-12 relative "
        "to the sum of the absolute terms of each component",
        "the monomial of each polynomial parameter is identified with unit "
        "parameter vectors on 5 fixed generic states (plus the case's state "
        "when it is generic), so any order of the parameters is accepted",
        "parameter layouts assumed: partially linear = per law (anchor, "
        "weights); peaks/ANN outputs = multiplier, bias, weights; hidden "
        "neurons = bias, weights (layer by layer, neuron by neuron)",
        "partially linear: states within 1e-9 (relative, squared distance) "
        "of a tie between the two nearest anchors (or whose squared "
        "distances differ by less than 1e-290, the underflow range) are "
        "skipped and counted",
        "table_3_1_lgpc: points where rounding can move the denominator "
        "across zero or the sine argument by more than 1e-3 are skipped and "
        "counted",
        "magnitudes are bounded (|state| <= 1e6, |parameter| <= 32) so that "
        "no intermediate overflows",
        "equation (3.1) of Li et al. 2018 and the Stuart-Landau / Lorenz "
        "equations are transcribed from the cited publications as quoted in "
        "the module documentation"],
    "shards": [4, 16],
    "technique": "property-based testing: Hypothesis-generated states, "
                 "parameter vectors and network architectures against "
                 "independent exact-rational / layer-wise reference formulas",
    "level_text": "every bundled controller blueprint, generated ANN "
                  "architectures and the three systems agree with "
                  "independently written reference formulas on all generated "
                  "evaluation points; inputs are bit-identical afterwards",
    "level_note": "numerical agreement within stated tolerances; parameter "
                  "layouts of non-polynomial blueprints are taken from the "
                  "module documentation/code structure",
}

REL = 1e-9
TINY = 1e-300


def _call(ctx: Ctx, what: str, fn: Any, state: list[float], t: float,
          second: list[float], n_out: int) -> np.ndarray:
    """Call ``fn(state, t, second, out)``; inputs must stay bit-identical."""
    s = np.array(state, dtype=float)
    p = np.array(second, dtype=float)
    s0, p0 = s.tobytes(), p.tobytes()
    out = np.full(n_out, 1.2345e300)
    sut(what, fn, s, float(t), p, out)
    require(s.tobytes() == s0, lambda: f"{what} modified its state vector: "
            f"{state} -> {s.tolist()}")
    require(p.tobytes() == p0, lambda: f"{what} modified its "
            f"parameter/control vector: {second} -> {p.tolist()}")
    return out


def _nz(v: list[float]) -> int:
    return sum(1 for x in v if x != 0.0)


def _generic(case: dict) -> bool:
    return _nz(case["params"]) >= 2 and all(x != 0.0 for x in case["state"])


def _close(got: float, want: float, tol: float) -> bool:
    return math.isfinite(got) and abs(got - want) <= tol


# ----------------------------------------------------------------------------
# polynomials
# ----------------------------------------------------------------------------

def check_poly(ctx: Ctx, case: dict) -> None:
    name, dim = case["ctrl"], case["dim"]
    degree = gen_dc.POLY_DEGREE[name]
    ctrl = gen_dc.bundled_controllers(dim)[name]
    n = int(ctrl.param_dims)
    monos = oracle_dc.monomials(dim, degree)
    require(ctrl.state_dims == dim and ctrl.control_dims == 1,
            f"{name}: wrong dimensions")

    def unit_eval(k: int, state: list[float]) -> float:
        e = [0.0] * n
        e[k] = 1.0
        return float(_call(ctx, f"{name}_{dim}d", ctrl.controller, state,
                           case["t"], e, 1)[0])

    mapping, problems = oracle_dc.identify_monomials(
        unit_eval, dim, degree, n, extra_probes=[case["state"]])
    require(not problems, lambda: f"{name} {dim}-D is not the complete "
            f"polynomial of degree {degree} with one parameter per monomial: "
            + "; ".join(problems[:4]))
    require(n == len(monos), f"{name} {dim}-D: param_dims {n} != "
            f"{len(monos)} monomials")
    params = case["params"]
    require(len(params) == n, f"{name} {dim}-D: param_dims is {n}, expected "
            f"{len(params)}")
    got = float(_call(ctx, f"{name}_{dim}d", ctrl.controller, case["state"],
                      case["t"], params, 1)[0])
    want, scale = oracle_dc.poly_value(mapping, params, case["state"])
    require(_close(got, want, REL * scale + TINY),
            lambda: f"{name} {dim}-D at state {case['state']} params "
            f"{params}: got {got!r}, polynomial value {want!r}")
    ctx.rec.case(case, nontrivial=_generic(case), labels=[
        f"poly={name}{dim}d", f"state={gen_dc.state_class(case['state'])}",
        f"nz_params={min(_nz(params), 3)}{'+' if _nz(params) >= 3 else ''}"])


# ----------------------------------------------------------------------------
# partially linear
# ----------------------------------------------------------------------------

def _later_farther_than_best_but_nearer_than_first(d: list[float]) -> bool:
    """The distance pattern in which a cascade has to compare with the best
    distance so far, not with the distance of the first anchor."""
    best = 0
    for i in range(1, len(d)):
        if d[i] < d[best]:
            best = i
        elif best != 0 and d[i] < d[0]:
            return True
    return False


def check_plin(ctx: Ctx, case: dict) -> None:
    dim, k = case["dim"], case["k"]
    name = f"linear_{k}"
    ctrl = gen_dc.bundled_controllers(dim)[name]
    params = case["params"]
    require(int(ctrl.param_dims) == 2 * dim * k == len(params),
            f"{name} {dim}-D: param_dims {ctrl.param_dims}, expected "
            f"{2 * dim * k}")
    got = float(_call(ctx, f"{name}_{dim}d", ctrl.controller, case["state"],
                      case["t"], params, 1)[0])
    ref = oracle_dc.plin_reference(dim, k, params, case["state"])
    labels = [f"plin={name}_{dim}d", f"geometry={case.get('geometry')}"]
    if ref["tie"]:
        # either law is acceptable, but it must be one of the tied laws
        cands = [i for i in range(k) if ref["dists"][i] <=
                 ref["dists"][ref["second"]] * (1 + 4e-9) + 1e-290]
        ok = any(_close(got, ref["values"][i][0],
                        REL * ref["values"][i][1] + TINY) for i in cands)
        require(ok, lambda: f"{name} {dim}-D: output {got!r} is the law of "
                f"none of the tied nearest anchors {cands}; state "
                f"{case['state']} params {params}")
        ctx.rec.case(case, nontrivial=False, labels=[*labels, "tie_skipped"])
        return
    best = ref["nearest"]
    want, scale = ref["values"][best]
    require(_close(got, want, REL * scale + TINY), lambda: (
        f"{name} {dim}-D: state {case['state']}: squared distances to the "
        f"anchors {ref['dists']}, nearest is anchor {best} whose law gives "
        f"{want!r}, controller returned {got!r}"
        + "".join(f" (= law of anchor {i})" for i in range(k) if i != best
                  and _close(got, ref['values'][i][0],
                             REL * ref['values'][i][1] + TINY))))
    labels.append(f"nearest={best}")
    if _later_farther_than_best_but_nearer_than_first(ref["dists"]):
        labels.append("later_anchor_between_best_and_first")
    ctx.rec.case(case, nontrivial=(best != 0 and _generic(case)),
                 labels=labels)


# ----------------------------------------------------------------------------
# networks
# ----------------------------------------------------------------------------

def _check_ann_point(ctx: Ctx, what: str, fn: Any, n_in: int, n_out: int,
                     layers: list[int], state: list[float], t: float,
                     params: list[float]) -> None:
    got = _call(ctx, what, fn, state, t, params, n_out)
    want, errs = oracle_dc.ann_reference(n_in, n_out, layers, params, state)
    for i in range(n_out):
        tol = REL * abs(want[i]) + 4 * errs[i] + TINY
        require(_close(float(got[i]), want[i], tol), lambda i=i, tol=tol: (
            f"{what}: output {i} is {float(got[i])!r}, layer-wise reference "
            f"{want[i]!r} (tolerance {tol:.3g}); state {state} params "
            f"{params[:40]}{'...' if len(params) > 40 else ''}"))


def check_net(ctx: Ctx, case: dict) -> None:
    dim = case["dim"]
    params = case["params"]
    if case["kind"] == "peaks":
        name = f"peaks_{case['n']}"
        ctrl = gen_dc.bundled_controllers(dim)[name]
        require(int(ctrl.param_dims) == len(params),
                f"{name} {dim}-D: param_dims {ctrl.param_dims}, expected "
                f"{len(params)}")
        got = float(_call(ctx, f"{name}_{dim}d", ctrl.controller,
                          case["state"], case["t"], params, 1)[0])
        want, scale, err = oracle_dc.peaks_reference(
            dim, case["n"], params, case["state"])
        require(_close(got, want, REL * scale + 4 * err + TINY),
                lambda: f"{name} {dim}-D: got {got!r}, reference {want!r}; "
                f"state {case['state']} params {params}")
        label = f"net={name}_{dim}d"
    else:
        layers = case["layers"]
        name = gen_dc.ann_name(layers)
        ctrl = gen_dc.bundled_controllers(dim)[name]
        require(int(ctrl.param_dims) == len(params),
                f"{name} {dim}-D: param_dims {ctrl.param_dims}, expected "
                f"{len(params)}")
        _check_ann_point(ctx, f"{name}_{dim}d", ctrl.controller, dim, 1,
                         layers, case["state"], case["t"], params)
        label = f"net={name}_{dim}d"
    ctx.rec.case(case, nontrivial=_generic(case), labels=[
        label, f"state={gen_dc.state_class(case['state'])}"])


def check_arch(ctx: Ctx, case: dict) -> None:
    from moptipyapps.dynamic_control.controllers.ann import make_ann
    n_in, n_out, layers = case["in"], case["out"], list(case["layers"])
    try:
        ctrl = sut("make_ann", make_ann, n_in, n_out, list(layers),
                   allowed=(ValueError,))
    except ValueError:
        require(n_in == 1, f"make_ann({n_in}, {n_out}, {layers}) raised "
                "ValueError for an admissible architecture")
        ctx.rec.case(case, nontrivial=False,
                     labels=["arch=rejected_input_dim_1"])
        return
    want_n = oracle_dc.ann_param_count(n_in, n_out, layers)
    require(int(ctrl.param_dims) == want_n and ctrl.state_dims == n_in
            and ctrl.control_dims == n_out,
            f"make_ann({n_in}, {n_out}, {layers}): param_dims "
            f"{ctrl.param_dims}, a network of this shape has {want_n} "
            "weights")
    require(ctrl.name == gen_dc.ann_name(layers),
            f"make_ann name {ctrl.name!r}")
    what = f"ann[{n_in}->{layers}->{n_out}]"
    for ev in case["evals"]:
        _check_ann_point(ctx, what, ctrl.controller, n_in, n_out, layers,
                         ev["state"], ev["t"], ev["params"])
    ctx.rec.label("arch_evaluation_points", len(case["evals"]))
    ctx.rec.case(case, nontrivial=len(layers) >= 1 and n_in > 1, labels=[
        f"arch_hidden_layers={len(layers)}", f"arch_in={n_in}",
        "arch_out=1" if n_out == 1 else "arch_out>1",
        "arch_width>=4" if layers and max(layers) >= 4 else "arch_width<4"])


def check_min_ann(ctx: Ctx, case: dict) -> None:
    dim = case["dim"]
    name = f"min_ann_{case['which']}"
    ctrl = gen_dc.bundled_controllers(dim)[name]
    params = case["params"]
    require(int(ctrl.param_dims) == len(params),
            f"{name} {dim}-D: param_dims {ctrl.param_dims} != {len(params)}")
    got = float(_call(ctx, f"{name}_{dim}d", ctrl.controller, case["state"],
                      case["t"], params, 1)[0])
    require(math.isfinite(got) and -1000.0 <= got <= 1000.0,
            lambda: f"{name} {dim}-D returned {got!r}, outside its search "
            f"interval [-1000, 1000]; state {case['state']} params {params}")
    again = float(_call(ctx, f"{name}_{dim}d", ctrl.controller,
                        case["state"], case["t"], params, 1)[0])
    require(again == got, f"{name} {dim}-D is not deterministic: {got!r} "
            f"then {again!r}")
    where = ("at_lower_end" if got == -1000.0 else
             "at_upper_end" if got == 1000.0 else
             "at_zero" if got == 0.0 else "interior")
    ctx.rec.case(case, nontrivial=_generic(case), labels=[
        f"min_ann={name}_{dim}d", f"min_ann_result={where}"])


# ----------------------------------------------------------------------------
# predefined laws
# ----------------------------------------------------------------------------

def check_predef(ctx: Ctx, case: dict) -> None:
    name, dim = case["ctrl"], case["dim"]
    ctrl = gen_dc.bundled_controllers(dim)[name]
    params, state = case["params"], case["state"]
    require(int(ctrl.param_dims) == len(params),
            f"{name}: param_dims {ctrl.param_dims} != {len(params)}")
    got = float(_call(ctx, name, ctrl.controller, state, case["t"],
                      params, 1)[0])
    labels = [f"predef={name}"]
    if name == "cornejo_maceda":
        want, err = oracle_dc.cornejo_maceda(state, params)
        tol = REL * abs(want) + 4 * err + TINY
        if any(p == 0.0 for p in params):
            labels.append("predef_zero_divisor")
    elif name == "table_3_1_ga":
        want, scale = oracle_dc.table_3_1_ga(state, params)
        tol = REL * scale + TINY
    else:
        ref = oracle_dc.table_3_1_lgpc(state, params)
        if ref["unsure"]:
            if ref.get("may_overflow") and math.isnan(got):
                labels.append("predef_sine_of_overflowed_quotient")
            else:
                require(math.isfinite(got) and abs(got) <= abs(params[2]) *
                        (1 + 1e-9), f"{name}: |output| {got!r} exceeds |p2|")
            ctx.rec.case(case, nontrivial=False,
                         labels=[*labels, "predef_ill_conditioned_skipped"])
            return
        want = ref["value"]
        tol = REL * abs(params[2]) + 4 * ref["tol"] + TINY
    require(_close(got, want, tol), lambda: f"{name}: got {got!r}, "
            f"documented formula gives {want!r}; state {state} params "
            f"{params}")
    ctx.rec.case(case, nontrivial=_generic(case), labels=labels)


# ----------------------------------------------------------------------------
# systems
# ----------------------------------------------------------------------------

def check_system(ctx: Ctx, case: dict) -> None:
    name = case["sys"]
    system = gen_dc.bundled_system(name)
    dim, ref_fn = oracle_dc.SYSTEMS[name]
    require(system.state_dims == dim and system.control_dims == 1,
            f"{name}: dimensions {system.state_dims}/{system.control_dims}")
    got = _call(ctx, f"{name}.equations", system.equations, case["state"],
                case["t"], case["control"], dim)
    ref = ref_fn(case["state"], case["control"])
    for i, (want, scale) in enumerate(ref):
        require(_close(float(got[i]), want, 1e-12 * scale + TINY),
                lambda i=i, want=want: f"{name}: d(state[{i}])/dt is "
                f"{float(got[i])!r}, published equation gives {want!r}; "
                f"state {case['state']} control {case['control']}")
    nt = all(x != 0.0 for x in case["state"]) and case["control"][0] != 0.0
    ctx.rec.case(case, nontrivial=nt, labels=[
        f"sys={name}", f"state={gen_dc.state_class(case['state'])}",
        "control=0" if case["control"][0] == 0.0 else "control!=0"])


SUBS = {"poly": check_poly, "plin": check_plin, "net": check_net,
        "arch": check_arch, "min_ann": check_min_ann, "predef": check_predef,
        "system": check_system}


def run(ctx: Ctx) -> None:
    ctx.given("poly", gen_dc.poly_cases(), check_poly,
              quick=700, thorough=16 * 3500)
    ctx.given("plin", gen_dc.plin_cases(), check_plin,
              quick=800, thorough=16 * 4000)
    ctx.given("net", gen_dc.net_cases(), check_net,
              quick=500, thorough=16 * 2500)
    pd = {}
    for dim in (2, 3):
        for which in (1, 2, 3):
            pd[(dim, which)] = int(gen_dc.bundled_controllers(dim)[
                f"min_ann_{which}"].param_dims)
    ctx.given("min_ann", gen_dc.min_ann_cases(pd), check_min_ann,
              quick=300, thorough=16 * 1500)
    ctx.given("predef", gen_dc.predef_cases(), check_predef,
              quick=300, thorough=16 * 1500)
    ctx.given("system", gen_dc.system_cases(), check_system,
              quick=400, thorough=16 * 2000)
    ctx.given("arch", gen_dc.arch_cases(), check_arch,
              quick=16, thorough=16 * 60)
