"""C14 - both decoders follow the documented bottom-left rule, statelessly."""
from __future__ import annotations

from typing import Any

from hypothesis import strategies as st

from vf import gen_bp, oracle_bp
from vf.core import Ctx, require, sut
from vf.stateful import make_machine, replay_history

META = {
    "rule": "sub-check 'decode': instances (6 of 10 coordinate-rich: "
            "bins 5..60, 3..24 (thorough 40) items drawn from small "
            "palettes of widths and heights so that support and blocker situations arise; the "
            "others from the 9 size classes incl. storage-type edges) x "
            "shuffled signed permutations x both encodings, destination "
            "pre-filled with garbage: rows and n_bins must equal the "
            "executable model of the documented rule "
            "(vf/oracle_bp.model_decode). Sub-check 'history': one "
            "instance, ONE encoder object per encoding and ONE destination "
            "packing shared by a drawn sequence of decode(x_i) with "
            "different permutations and encodings, interleaved with "
            "y.fill(garbage) and garbage in single rows; after every decode "
            "the packing must equal the model of that permutation alone. A "
            "decoding is non-trivial when at least one item made a left "
            "move that was stopped by the left end of a supporting item and "
            "at least two bins are open; a history is non-trivial when it "
            "contains two such decodings with different permutations; "
            "distinct = distinct (instance, permutation, encoding) triples "
            "/ distinct histories",
    "assumptions": [
        "the model in vf/oracle_bp.py was written from the module "
        "docstrings of ibl_encoding_1/2 (geometric per-bin rectangle "
        "lists, no index windows) and does not import them",
        "permutations are stored in the integer type moptipy's "
        "SignedPermutations space uses for the instance"],
    "shards": [4, 16],
    "technique": "property-based testing: Hypothesis-generated decodings "
                 "and decode histories (shared encoder and destination) "
                 "against an executable model of the documented "
                 "bottom-left rule",
    "level_text": "exact agreement (every row, n_bins) of both decoders "
                  "with an independent executable model of the documented "
                  "rule, for single decodings and after every step of "
                  "generated histories on shared objects",
    "level_note": "trusts the model vf/oracle_bp.model_decode as the "
                  "reading of the documentation",
}


def compare(inst_case: dict, x: list[int], enc: int, y: Any,
            what: str) -> dict[str, int]:
    W, H, items = inst_case["W"], inst_case["H"], inst_case["items"]
    want, k, stats = oracle_bp.model_decode(W, H, items, x, enc)
    got = gen_bp.rows_of(y)
    if got != want:
        idx = next(i for i, (a, b) in enumerate(zip(got, want)) if a != b)
        require(False, f"{what}: encoding {enc} deviates from the documented "
                f"rule at position {idx} (item {x[idx]}): decoder row "
                f"{got[idx]}, documented rule gives {want[idx]}; bin "
                f"{W}x{H}, items {items}, x={x}, rows before: "
                f"{want[:idx][-12:]}")
    require(type(y.n_bins) is int and y.n_bins == k,
            lambda: f"{what}: n_bins {y.n_bins!r}, documented rule gives {k}")
    stats["k"] = k
    return stats


def decoding_labels(inst_case: dict, x: list[int], enc: int,
                    stats: dict[str, int]) -> tuple[list[str], bool]:
    W, H, items = inst_case["W"], inst_case["H"], inst_case["items"]
    other, k2, _s = oracle_bp.model_decode(W, H, items, x, 3 - enc)
    mine, _k, _s2 = oracle_bp.model_decode(W, H, items, x, enc)
    k = stats["k"]
    labels = [f"enc={enc}",
              "bins=1" if k == 1 else ("bins=2..3" if k <= 3 else "bins>=4")]
    for key in ("support_stop", "blocker_stop", "wall_stop",
                "forced_rotation", "earlier_bin"):
        if stats.get(key):
            labels.append(key)
    if other != mine:
        labels.append("enc1!=enc2")
    return labels, bool(stats.get("support_stop")) and k >= 2


def check_decode(ctx: Ctx, case: dict) -> None:
    ic = case["inst"]
    inst = sut("Instance()", gen_bp.build_instance, ic)
    y = sut("decode", gen_bp.decode, inst, case["x"], case["enc"],
            case["garbage"])
    stats = compare(ic, case["x"], case["enc"], y, "fresh objects")
    labels, nt = decoding_labels(ic, case["x"], case["enc"], stats)
    labels.append(f"cls={ic.get('cls', '?')}")
    ctx.rec.case(case, nontrivial=nt, labels=labels)


class SharedDecoding:
    """History executor: one encoder per encoding and one packing, re-used."""

    def __init__(self, ctx: Ctx, init: dict) -> None:
        import numpy as np
        from moptipy.utils.nputils import int_range_to_dtype
        from moptipyapps.binpacking2d.packing import Packing
        self.ctx = ctx
        self.init = init
        self.ic = init["inst"]
        self.inst = sut("Instance()", gen_bp.build_instance, self.ic)
        self.enc = {1: gen_bp.make_encoder(self.inst, 1),
                    2: gen_bp.make_encoder(self.inst, 2)}
        self.y = Packing(self.inst)
        self.y.fill(init.get("garbage", 0))
        nd = int(self.inst.n_different_items)
        self.xdtype = int_range_to_dtype(-nd, nd)
        self.np = np
        self.n_items = int(self.inst.n_items)
        self.ops: list[dict] = []
        self.nt_perms: set[tuple] = set()
        self.labels: set[str] = set()
        self.n_decodes = 0

    def apply(self, op: dict) -> None:
        self.ops.append(op)
        if op["op"] == "fill":
            self.y.fill(op["v"])
            self.y.n_bins = op.get("n_bins", -1)
            self.labels.add("op=fill")
            return
        if op["op"] == "poke":  # garbage in one row of the destination
            i = op["row"] % self.n_items
            self.y[i, :] = op["vals"]
            self.labels.add("op=poke")
            return
        x, enc = op["x"], op["enc"]
        xs = self.np.array(x, dtype=self.xdtype)
        sut("decode", self.enc[enc].decode, xs, self.y)
        require(xs.tolist() == x, "decode modified the permutation")
        self.n_decodes += 1
        stats = compare(self.ic, x, enc, self.y,
                        f"step {len(self.ops)} of a history on shared "
                        f"encoder/packing objects")
        labels, nt = decoding_labels(self.ic, x, enc, stats)
        self.labels.update(labels)
        if nt:
            self.nt_perms.add((enc, tuple(x)))

    def finish(self) -> None:
        kinds = [o["op"] for o in self.ops]
        labels = sorted(self.labels)
        labels.append("decodes=0" if self.n_decodes == 0 else (
            "decodes=1..3" if self.n_decodes <= 3 else "decodes>=4"))
        encs = {o["enc"] for o in self.ops if o["op"] == "decode"}
        if encs == {1, 2}:
            labels.append("both_encodings_share_y")
        if "fill" in kinds or "poke" in kinds:
            labels.append("garbage_between_decodes")
        self.ctx.rec.case({"init": self.init, "ops": self.ops},
                          nontrivial=len(self.nt_perms) >= 2, labels=labels)


def history_init(max_items: int) -> Any:
    @st.composite
    def build(draw: Any) -> dict:
        if draw(st.integers(0, 9)) < 7:
            inst = draw(gen_bp.instances_rich(max_items=max_items))
        else:
            inst = draw(gen_bp.instances(classes=gen_bp.CLASSES_CHEAP,
                                         max_items=max_items))
        return {"inst": inst, "garbage": draw(st.integers(-3, 100))}
    return build()


def history_op(ex: SharedDecoding) -> Any:
    lo, hi = gen_bp.dtype_limits(ex.ic)
    decode = st.builds(
        lambda x, enc: {"op": "decode", "enc": enc, "x": x},
        gen_bp.signed_perm(ex.ic), st.sampled_from([1, 2]))
    fill = st.builds(lambda v, nb: {"op": "fill", "v": v, "n_bins": nb},
                     st.sampled_from([0, 1, -1, 2, 5, hi, lo]),
                     st.sampled_from([-1, 0, 1, 7]))
    poke = st.builds(
        lambda row, vals: {"op": "poke", "row": row, "vals": vals},
        st.integers(0, 200),
        st.lists(st.sampled_from([0, 1, 2, 3, -1, hi, lo]), min_size=6,
                 max_size=6))
    return st.one_of(decode, decode, decode, decode, fill, poke)


Machine = make_machine(SharedDecoding, history_init(16), history_op)
MachineT = make_machine(SharedDecoding, history_init(24), history_op)

SUBS = {"decode": check_decode, "history": replay_history(SharedDecoding)}


def run(ctx: Ctx) -> None:
    ctx.given("decode",
              gen_bp.decode_case(rich_share=6, rich_items=ctx.pick(24, 40),
                                 max_items=ctx.pick(14, 40),
                                 max_types=ctx.pick(6, 10)),
              check_decode, quick=4000, thorough=16 * 8000)
    ctx.state_machine("history", MachineT if ctx.thorough else Machine,
                      quick=400, thorough=16 * 500, steps=ctx.pick(14, 20))
