"""C04 - PackingSpace.validate accepts exactly the feasible packings and
from_str(to_str(y)) returns an equal, validated packing."""
from __future__ import annotations

from typing import Any

from vf import gen_bp, oracle_bp
from vf import fuzz
from vf.core import Ctx, HarnessError, require, sut

META = {'rule': 'a feasible packing (layout of the documented decoding rule for '
         'instances of all 9 size classes incl. bins up to 10^12, guillotine '
         'layouts with unsorted rows, one item per bin; optionally rows '
         'shuffled / bins renamed / sparse extra last bin) is handed to '
         "validate unchanged (sub-check 'feasible') or after 1..3 "
         'corruptions drawn from a catalogue of 22 kinds (ids, shifted / '
         'resized / turned / overlapping / outside rectangles, bin ids incl. '
         'gaps, zero, negative and too large ones, n_bins value and type, '
         'dtype, shape, foreign instance object, plain ndarray; sub-checks '
         "'mutated' with bins < 10^9 and 'mutated_huge' with bins of "
         '2^30..10^12). Both directions are decided by the oracle on every '
         'case: validate raises ValueError/TypeError <=> the oracle finds '
         'the matrix infeasible; from_str(to_str(y)) raises <=> the parsed '
         'matrix with n_bins = max bin id is infeasible, and otherwise '
         'equals y. A case is non-trivial when the oracle finds it '
         'infeasible by exactly one clause, or feasible with rows that no '
         'decoder produces (guillotine / re-arranged / accidentally harmless '
         'corruption); distinct = distinct (instance, matrix, n_bins, '
         "container) cases Additionally 'fuzz_packing': coverage-guided "
         'fuzzing (atheris/libFuzzer) of PackingSpace.from_str on three '
         'fixed instances: from_str must return exactly when the '
         'independently parsed numbers form a feasible packing (judged by '
         'vf/oracle_bp), and return those numbers; non-trivial fuzz inputs = '
         'distinct accepted texts.',
 'assumptions': ['feasibility is judged by vf/oracle_bp.infeasibility_ext '
                 '(pure Python, no code of the package)',
                 'corrupted values stay inside the storage type of the '
                 'instance, so every case is a representable packing array '
                 'and its text form parses without overflow',
                 'a packing object is built as ndarray.view(Packing) with '
                 'the attributes instance and n_bins set (numpy drops them '
                 'on astype / slicing, DESIGN.md O2)',
                 'fuzz targets: inputs the independent oracle cannot '
                 'interpret and exceptions other than the documented '
                 "rejection are counted, not reported; libFuzzer's -seed "
                 'pins a campaign only approximately, the saved input is the '
                 'reproducible unit'],
 'shards': [4, 16],
 'technique': 'property-based testing: Hypothesis-generated feasible '
              'packings and catalogue-driven corruptions against an '
              'independent geometric feasibility checker + coverage-guided '
              'fuzzing (atheris) of from_str with the independent '
              'feasibility oracle',
 'level_text': 'validate raises exactly on the matrices an independent '
               'feasibility checker rejects, and from_str(to_str(y)) '
               'round-trips, on generated feasible and corrupted packings',
 'level_note': 'trusts vf/oracle_bp.infeasibility_ext; corruptions are '
               'limited to the catalogue in vf/gen_bp.py (1..3 per case)'}


def _n_bins_value(v: Any) -> Any:
    import numpy as np
    if isinstance(v, dict) and "np" in v:
        return getattr(np, v["np"])(v["v"])
    return v


def _to_array(rows: Any, dtype: str) -> Any:
    import numpy as np
    try:
        arr = np.array(rows, dtype=np.int64)
    except ValueError as exc:  # ragged: generator bug
        raise HarnessError(f"rows are not rectangular: {exc}") from exc
    if arr.ndim == 1 and arr.size == 0:
        arr = arr.reshape((0,))
    return arr.astype(np.dtype(dtype), copy=False) if \
        arr.dtype != np.dtype(dtype) else arr


def build(case: dict, inst: Any, foreign_inst: Any) -> Any:
    """The object handed to validate."""
    from moptipyapps.binpacking2d.packing import Packing
    arr = _to_array(case["rows"], case["dtype"])
    if case["plain"]:
        return arr
    y = arr.view(Packing)
    y.instance = foreign_inst if case["foreign"] else inst
    y.n_bins = _n_bins_value(case["n_bins"])
    return y


def _flat(rows: Any) -> list[int]:
    out: list[int] = []
    stack = [rows]
    while stack:
        v = stack.pop()
        if isinstance(v, list):
            stack.extend(reversed(v))
        else:
            out.append(v)
    return out


def check_validate(ctx: Ctx, case: dict) -> None:
    import numpy as np
    from moptipyapps.binpacking2d.packing import Packing
    from moptipyapps.binpacking2d.packing_space import PackingSpace
    ic = case["inst"]
    W, H, items = ic["W"], ic["H"], ic["items"]
    n_items = sum(m for _w, _h, m in items)
    inst = sut("Instance()", gen_bp.build_instance, ic)
    foreign = sut("Instance()", gen_bp.build_instance, ic) \
        if case["foreign"] else None
    space = sut("PackingSpace()", PackingSpace, inst)
    want_dtype = oracle_bp.expected_dtype(W, H, items)
    require(inst.dtype.name == want_dtype,
            lambda: f"instance dtype {inst.dtype.name}, needs {want_dtype}")
    y = build(case, inst, foreign)
    before = np.array(y, copy=True)
    n_bins_before = getattr(y, "n_bins", None)

    # ---- validate: raises <=> infeasible ---------------------------------
    why = oracle_bp.infeasibility_ext(
        W, H, items, case["rows"], case["n_bins"], case["dtype"],
        same_instance=not case["foreign"], is_packing=not case["plain"])
    raised = None
    try:
        sut("validate", space.validate, y, allowed=(ValueError, TypeError))
    except (ValueError, TypeError) as exc:
        raised = exc
    if why:
        require(raised is not None,
                lambda: f"validate accepted an infeasible packing: "
                f"{why[:3]}; bin {W}x{H}, items {items}, rows "
                f"{str(case['rows'])[:600]}, n_bins {case['n_bins']!r}, "
                f"dtype {case['dtype']}")
    else:
        require(raised is None,
                lambda: f"validate rejected a feasible packing with "
                f"{type(raised).__name__}: {raised}; bin {W}x{H}, items "
                f"{items}, rows {str(case['rows'])[:600]}")
    require(np.array_equal(before, np.asarray(y))
            and getattr(y, "n_bins", None) is n_bins_before,
            "validate modified the packing")

    # ---- text form: from_str(to_str(y)) -----------------------------------
    flat = _flat(case["rows"])
    text = sut("to_str", space.to_str, y) if flat else ""
    if flat:
        require(text == ";".join(str(v) for v in np.asarray(y).flatten()),
                "to_str is not the ';'-joined flattened matrix")
    text_ok = case["dtype"] == want_dtype  # else the text holds other values
    if text_ok:
        if len(flat) == n_items * 6:
            prow = [flat[i:i + 6] for i in range(0, len(flat), 6)]
            pk = max(r[1] for r in prow)
            pwhy = oracle_bp.infeasibility_ext(W, H, items, prow, pk,
                                               want_dtype)
        else:
            prow, pk = None, None
            pwhy = ["shape: wrong number of values in the text"]
        parsed = None
        praised = None
        try:
            parsed = sut("from_str", space.from_str, text,
                         allowed=(ValueError, TypeError))
        except (ValueError, TypeError) as exc:
            praised = exc
        if pwhy:
            require(praised is not None,
                    lambda: f"from_str accepted an infeasible text: "
                    f"{pwhy[:3]}; bin {W}x{H}, items {items}, text "
                    f"{text[:600]!r}")
        else:
            require(praised is None,
                    lambda: f"from_str rejected the text of a feasible "
                    f"packing with {type(praised).__name__}: {praised}; "
                    f"text {text[:600]!r}")
            require(type(parsed) is Packing and parsed is not y,
                    "from_str did not return a new Packing")
            require(parsed.shape == (n_items, 6)
                    and gen_bp.rows_of(parsed) == prow,
                    lambda: f"from_str changed the matrix: "
                    f"{gen_bp.rows_of(parsed)[:8]} vs {prow[:8]}")
            require(parsed.dtype is inst.dtype,
                    lambda: f"from_str dtype {parsed.dtype}")
            require(type(parsed.n_bins) is int and parsed.n_bins == pk,
                    lambda: f"from_str n_bins {parsed.n_bins!r} != {pk}")
            require(parsed.instance is inst, "from_str lost the instance")
            if not why:  # y itself is feasible: full equality with y
                require(sut("is_equal", space.is_equal, y, parsed) is True
                        and parsed.n_bins == y.n_bins,
                        "from_str(to_str(y)) is not equal to y")
    else:
        pwhy = None

    # ---- bookkeeping --------------------------------------------------------
    cl = oracle_bp.clauses(why)
    labels = [f"cls={ic.get('cls', '?')}", f"dtype={inst.dtype.name}",
              "verdict=feasible" if not why else "verdict=infeasible",
              "origin=" + case["origin"].split("+")[0]]
    if "+" in case["origin"]:
        labels.append("origin_rearranged")
    labels.extend(f"mut={m}" for m in sorted(set(case["muts"])))
    labels.append(f"n_muts={len(case['muts'])}")
    if len(cl) == 1:
        labels.append("single_clause=" + next(iter(cl)))
    elif len(cl) > 1:
        labels.append("multi_clause")
    if case["muts"] and not why:
        labels.append("corruption_stayed_feasible")
    if max(W, H) > 10 ** 9:
        labels.append("bin_side>1e9")
    if pwhy is not None:
        labels.append("text=rejected" if pwhy else "text=round_trip")
        if why and not pwhy:
            labels.append("text_feasible_although_object_not")
    not_decoder = (not case["origin"].startswith("model")
                   or "+" in case["origin"] or bool(case["muts"]))
    ctx.rec.case(case, nontrivial=(len(cl) == 1
                                   or (not why and not_decoder)),
                 labels=labels)


SUBS = {"feasible": check_validate, "mutated": check_validate,
        "mutated_huge": check_validate}
SUBS["fuzz_packing"] = fuzz.make_sub("packing")

SMALL = ("tiny", "small", "medium", "int8_edge", "int16_edge_thin",
         "int16_2d", "nitems_edge")
HUGE = ("int32_edge_thin", "huge_thin")


def run(ctx: Ctx) -> None:
    mi, mt = ctx.pick(14, 30), ctx.pick(6, 8)
    ctx.given("feasible",
              gen_bp.validation_case(mutate=False, max_items=mi,
                                     max_types=mt, max_bins=ctx.pick(4, 6)),
              check_validate, quick=800, thorough=16 * 2000)
    ctx.given("mutated",
              gen_bp.validation_case(mutate=True, classes=SMALL,
                                     max_items=mi, max_types=mt,
                                     max_bins=ctx.pick(4, 6)),
              check_validate, quick=3000, thorough=16 * 7000)
    ctx.given("mutated_huge",
              gen_bp.validation_case(mutate=True, classes=HUGE,
                                     guillotine_share=0, max_items=mi,
                                     max_types=mt),
              check_validate, quick=800, thorough=16 * 1500)
    fuzz.run_target(ctx, "packing", quick_runs=120_000,
                    thorough_runs=16 * 1_000_000)
