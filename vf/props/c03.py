"""C03 - the bin-count lower bound never exceeds an achievable packing."""
from __future__ import annotations

from typing import Any

from hypothesis import strategies as st

from vf import gen_bp, oracle_bp
from vf.core import Ctx, HarnessError, require, sut

META = {
    "rule": "sub-check 'guillotine': k bins (shape classes: any, square, "
            "thin strips in both orientations, flat, up to 100x100) are cut "
            "recursively into items (drawn share of cuts next to the middle, "
            "optional slack / dropped pieces), so a feasible k-bin packing "
            "is known by construction and re-verified by the feasibility "
            "oracle; checked: ceil(area/bin_area) <= bound <= k, the bound "
            "of BinCount and of InstanceSpace, and invariance of the bound "
            "under transposing bin and items, rotating single items, "
            "permuting and splitting the item rows; hypothesis.target("
            "bound - k) steers towards tight cases. Sub-check 'decoded': "
            "instances of all 9 size classes, three signed permutations "
            "decoded by both encodings, bound <= n_bins of every feasible "
            "decoding. A case is non-trivial when the bound is strictly "
            "larger than the area bound, or equals the known / decoded bin "
            "count with at least 2 bins; distinct = distinct instances "
            "(with layout / permutations)",
    "assumptions": [
        "the constructed k-bin layout is checked with "
        "vf/oracle_bp.infeasibility (rotation allowed)",
        "'bound <= optimum' is decided only through upper bounds on the "
        "optimum that are known by construction (k) or produced by the "
        "decoders; the optimum itself is not computed"],
    "shards": [4, 16],
    "technique": "property-based testing: Hypothesis-generated guillotine "
                 "instances with a known feasible bin count (targeted "
                 "search for tight cases) plus metamorphic invariances",
    "level_text": "area bound <= lower bound <= bin count of a feasible "
                  "packing known by construction or decoded, on generated "
                  "instances",
    "level_note": "the optimum is only bounded from above by constructed / "
                  "decoded packings; trusts vf/oracle_bp.infeasibility",
}


def area_bound(W: int, H: int, items: list[list[int]]) -> int:
    area = sum(w * h * m for w, h, m in items)
    return max(1, -(-area // (W * H)))


def variants(case: dict) -> list[tuple[str, int, int, list[list[int]]]]:
    """Metamorphic variants of an instance that have the same optimum."""
    W, H, items = case["W"], case["H"], case["items"]
    meta = case.get("meta")
    res = [("transposed", H, W, [[h, w, m] for w, h, m in items])]
    if meta:
        rot = [[h, w, m] if f else [w, h, m]
               for (w, h, m), f in zip(items, meta["rot"])]
        res.append(("items_rotated", W, H, rot))
        perm: list[list[int]] = []
        for idx in meta["order"]:
            w, h, m = items[idx]
            if meta["split"][idx] and m >= 2:
                perm.append([w, h, m - 1])
                perm.append([h, w, 1])
            else:
                perm.append([w, h, m])
        res.append(("rows_permuted_split", W, H, perm))
    return res


def bounds_of(ctx: Ctx, W: int, H: int, items: list[list[int]],
              what: str) -> tuple[Any, int]:
    inst = sut(f"Instance() [{what}]", gen_bp.build_instance,
               {"W": W, "H": H, "items": items})
    lb = inst.lower_bound_bins
    require(type(lb) is int, lambda: f"lower_bound_bins is {type(lb)}")
    ab = area_bound(W, H, items)
    require(lb >= ab, lambda: f"[{what}] lower bound {lb} < area bound "
            f"{ab} (bin {W}x{H}, items {items})")
    n_items = sum(m for _w, _h, m in items)
    require(lb <= n_items, lambda: f"[{what}] lower bound {lb} > number of "
            f"items {n_items} (bin {W}x{H}, items {items})")
    return inst, lb


def side_views(inst: Any, lb: int) -> None:
    """BinCount.lower_bound and InstanceSpace.min_bins show the same bound."""
    from moptipyapps.binpacking2d.instgen.instance_space import InstanceSpace
    from moptipyapps.binpacking2d.objectives.bin_count import BinCount
    f = sut("BinCount()", BinCount, inst)
    require(sut("BinCount.lower_bound", f.lower_bound) == lb,
            "BinCount.lower_bound() differs from lower_bound_bins")
    try:
        sp = sut("InstanceSpace()", InstanceSpace, inst,
                 allowed=(ValueError,))
    except ValueError:
        return  # outside the space's admitted ranges (10^9): not applicable
    require(sp.min_bins == lb,
            lambda: f"InstanceSpace.min_bins {sp.min_bins} != {lb}")


def bounds_in_result_record(inst: Any, rows: list, k: int, lb: int, W: int,
                            H: int, items: list) -> None:
    """The bin-count bounds stored with a result record of the known feasible
    packing: the overall bound, the geometric one and the Dell'Amico et al.
    one - none may exceed the packing's bin count."""
    from moptipy.evaluation.end_results import EndResult
    from moptipyapps.binpacking2d import packing_result as pres
    y = gen_bp.build_packing(inst, rows, k)
    er = EndResult("algo", inst.name, "binCount", None, 1, k, 1, 0, 1, 0,
                   None, None, None)
    rec = sut("from_packing_and_end_result",
              pres.from_packing_and_end_result, er, y)
    bb = dict(rec.bin_bounds)
    require(bb.get("bins.lowerBound") == lb, lambda: f"result record: "
            f"bins.lowerBound={bb.get('bins.lowerBound')} but the instance "
            f"says {lb}")
    ab = area_bound(W, H, items)
    require(bb.get("bins.lowerBound.geometric") == ab, lambda: "result "
            f"record: geometric bound {bb.get('bins.lowerBound.geometric')}"
            f", area bound is {ab}")
    damv = bb.get("bins.lowerBound.damv")
    require(damv is not None and 1 <= damv <= min(lb, k), lambda: "result "
            f"record: Dell'Amico bound {damv} for a packing with {k} bins "
            f"(overall bound {lb}); bin {W}x{H}, items {items}")


@st.composite
def square_cases(draw: Any) -> dict:
    """Bins filled with one row of medium squares (side between half the bin
    height and half the bin width) and small squares above / beside them -
    the item classes S2/S3/S4 of the Dell'Amico et al. bound all occur, with
    a feasible k-bin layout known by construction."""
    H = draw(st.integers(4, 24))
    W = draw(st.integers(H, 2 * H + 6))
    s_hi = max(1, min(W // 2, H))
    s_lo = min(s_hi, max(1, H // 2 + 1 if draw(st.booleans()) else H // 3))
    s = draw(st.integers(s_lo, s_hi))
    a = max(1, W // s)
    t = draw(st.integers(1, max(1, H - s))) if H > s else 0
    k = draw(st.integers(1, 4))
    rows: list[list[int]] = []
    items = [[s, s, 0]]
    if t:
        items.append([t, t, 0])
    for b in range(1, k + 1):
        n_med = a if draw(st.integers(0, 3)) else draw(st.integers(1, a))
        for i in range(n_med):
            rows.append([1, b, i * s, 0, (i + 1) * s, s])
            items[0][2] += 1
        if t:
            per_row = W // t
            n_rows = (H - s) // t
            cnt = draw(st.integers(0, per_row * n_rows))
            for j in range(cnt):
                x0, y0 = (j % per_row) * t, s + (j // per_row) * t
                rows.append([2, b, x0, y0, x0 + t, y0 + t])
                items[1][2] += 1
    items = [it for it in items if it[2] > 0]
    if len(items) == 1:  # only one of the two types occurs: it has id 1
        rows = [[1, *r[1:]] for r in rows]
    if draw(st.booleans()):  # portrait orientation of everything
        W, H = H, W
        rows = [[i, b, y0, x0, y1, x1] for i, b, x0, y0, x1, y1 in rows]
    return {"W": W, "H": H, "k": k, "items": items, "rows": rows,
            "shape": "squares", "perfect": False}


def check_guillotine(ctx: Ctx, case: dict) -> None:
    from hypothesis import target
    W, H, items, k = case["W"], case["H"], case["items"], case["k"]
    why = oracle_bp.infeasibility(W, H, items, case["rows"], k)
    if why:
        raise HarnessError(f"guillotine layout infeasible: {why[:3]}")
    inst, lb = bounds_of(ctx, W, H, items, "original")
    if not ctx.replaying:
        # the leading term is the one that matters (a positive value is a
        # violation); the small terms keep the hill climber away from the
        # trivially tight one-bin / perfect-cut cases
        target(float(lb - k) + 0.1 * min(k, 6)
               + 0.25 * (lb > area_bound(W, H, items))
               + 0.15 * (not case.get("perfect")),
               label="bound minus known bin count")
    require(lb <= k, lambda: f"lower bound {lb} exceeds the {k} bins of a "
            f"feasible packing: bin {W}x{H}, items {items}, "
            f"packing {case['rows']}")
    side_views(inst, lb)
    bounds_in_result_record(inst, case["rows"], k, lb, W, H, items)
    for what, W2, H2, items2 in variants(case):
        _i, lb2 = bounds_of(ctx, W2, H2, items2, what)
        require(lb2 == lb, lambda: f"bound changes from {lb} to {lb2} under "
                f"'{what}': bin {W}x{H} items {items} -> bin {W2}x{H2} "
                f"items {items2}")
    ab = area_bound(W, H, items)
    labels = [f"shape={case.get('shape', '?')}",
              "perfect" if case.get("perfect") else "with_slack",
              f"k={k}" if k <= 3 else "k>=4",
              "tight" if lb == k else f"gap={min(k - lb, 3)}"]
    if lb > ab:
        labels.append("damv>area")
    half = any((2 * w in (W - 2, W - 1, W, W + 1, W + 2)
                or 2 * h in (H - 2, H - 1, H, H + 1, H + 2))
               for (_i, _b, x0, y0, x1, y1) in case["rows"]
               for (w, h) in [(x1 - x0, y1 - y0)])
    if half:
        labels.append("item_near_half_bin")
    if any(r[4] - r[2] == r[5] - r[3] for r in case["rows"]):
        labels.append("square_item")
    ctx.rec.case(case, nontrivial=(lb > ab or (lb == k and k >= 2)),
                 labels=labels)


def check_decoded(ctx: Ctx, case: dict) -> None:
    ic = case["inst"]
    W, H, items = ic["W"], ic["H"], ic["items"]
    inst, lb = bounds_of(ctx, W, H, items, "original")
    side_views(inst, lb)
    for what, W2, H2, items2 in variants(ic):
        _i, lb2 = bounds_of(ctx, W2, H2, items2, what)
        require(lb2 == lb, lambda: f"bound changes from {lb} to {lb2} under "
                f"'{what}': bin {W}x{H} items {items}")
    best = None
    encoders = {e: gen_bp.make_encoder(inst, e) for e in (1, 2)}
    for x in case["xs"]:
        for enc in (1, 2):
            y = sut("decode", gen_bp.decode, inst, x, enc, 0, encoders[enc])
            rows = gen_bp.rows_of(y)
            if oracle_bp.infeasibility(W, H, items, rows, y.n_bins):
                ctx.rec.inconc("decoder output infeasible (subject of C01)")
                continue
            require(lb <= y.n_bins, lambda: f"lower bound {lb} exceeds the "
                    f"{y.n_bins} bins of the feasible packing decoded by "
                    f"encoding {enc} from {x}: bin {W}x{H}, items {items}, "
                    f"packing {rows}")
            best = y.n_bins if best is None else min(best, y.n_bins)
    ab = area_bound(W, H, items)
    labels = [f"cls={ic.get('cls', '?')}", f"dtype={inst.dtype.name}"]
    if lb > ab:
        labels.append("damv>area")
    if best is not None:
        labels.append("tight" if lb == best else f"gap={min(best - lb, 3)}")
    ctx.rec.case(case, nontrivial=(lb > ab or (
        best is not None and lb == best and best >= 2)), labels=labels)


@st.composite
def huge_area_cases(draw: Any) -> dict:
    """Bins 10^10..10^12 wide and 5*10^3..3*10^5 high filled with unit-thin
    strips: total item areas beyond 2^53, equal to or slightly above k bin
    areas, with a k- (or k+1-)bin packing known by construction (strips
    stacked on each other; the few extra thin items share one more bin)."""
    W = draw(st.sampled_from([10 ** 10, 3 * 10 ** 11, 10 ** 12 - 1,
                              10 ** 12]))
    H = draw(st.integers(5000, 300000))
    k = draw(st.integers(1, 3))
    missing = draw(st.sampled_from([0, 0, 1, 2]))  # strips left out
    items = [[W, 1, k * H - missing]]
    extras = draw(st.lists(st.sampled_from(
        [[1, 1, 1], [1, 1, 2], [W - 1, 1, 1], [W // 2, 1, 1], [2, 1, 3]]),
        min_size=0, max_size=3))
    items.extend([list(e) for e in extras])
    free = missing  # rows still free in the k full bins
    need = sum(e[2] for e in extras)  # each extra item occupies <= one row
    bins = k if need <= free else k + 1
    swap = draw(st.booleans())
    if swap:
        W, H = H, W
        items = [[h, w, m] for w, h, m in items]
    return {"W": W, "H": H, "items": items, "bins": bins,
            "shape": "huge_area"}


def check_huge_area(ctx: Ctx, case: dict) -> None:
    W, H, items, k = case["W"], case["H"], case["items"], case["bins"]
    inst, lb = bounds_of(ctx, W, H, items, "huge_area")
    require(lb <= k, lambda: f"lower bound {lb} exceeds the {k} bins of the "
            f"strip packing: bin {W}x{H}, items {items}")
    side_views(inst, lb)
    _i, lb2 = bounds_of(ctx, H, W, [[h, w, m] for w, h, m in items],
                        "huge_area transposed")
    require(lb2 == lb, f"bound changes from {lb} to {lb2} when transposed")
    area = sum(w * h * m for w, h, m in items)
    ctx.rec.case(case, nontrivial=area > 2 ** 53, labels=[
        "shape=huge_area", "tight" if lb == k else f"gap={min(k - lb, 3)}",
        "area_exact_multiple" if area % (W * H) == 0
        else ("area_just_above_multiple" if area % (W * H) <= W + H
              else "area_other")])


SUBS = {"guillotine": check_guillotine, "decoded": check_decoded,
        "huge_area": check_huge_area, "squares": check_guillotine}


def decoded_cases(**kw: Any) -> Any:
    from hypothesis import strategies as st

    @st.composite
    def build(draw: Any) -> dict:
        inst = draw(gen_bp.instances(**kw))
        return {"inst": inst,
                "xs": [draw(gen_bp.signed_perm(inst)) for _ in range(3)]}
    return build()


def run(ctx: Ctx) -> None:
    ctx.given("huge_area", huge_area_cases(), check_huge_area, quick=40,
              thorough=16 * 150, shrink=False)
    ctx.given("squares", square_cases(), check_guillotine, quick=1500,
              thorough=16 * 6000)
    ctx.given("guillotine",
              gen_bp.guillotine_shaped(max_bins=ctx.pick(5, 7),
                                       max_dim=ctx.pick(40, 60),
                                       big_dim=ctx.pick(100, 160)),
              check_guillotine, quick=2200, thorough=16 * 7000)
    ctx.given("decoded",
              decoded_cases(max_items=ctx.pick(14, 30),
                            max_types=ctx.pick(6, 8)),
              check_decoded, quick=800, thorough=16 * 2500)
