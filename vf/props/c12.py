"""C12 - bundled experiment runs are replicable and log true results."""
from __future__ import annotations

import importlib.util
import os
import shutil
import tempfile
from typing import Any, Callable

from hypothesis import strategies as st

from vf import gen_bp, oracle_bp
from vf.core import CaseTimeout, Ctx, isolated, require, sut

META = {
    "rule": "configurations = (setup, instance, seed, budget) tuples drawn by "
            "Hypothesis for six families of bundled set-ups: bin packing "
            "experiment.rls/fea x 7 objectives x 2 encodings on shipped and "
            "generated instances; TSP EA/FEA/RLS on shipped (<= 60 cities) "
            "and generated symmetric matrices; the TTP example searches "
            "(rls, rs, prioritised rls, NSGA-II) on 18 bundled instances "
            "with 4..12 teams, a third of them with other streak limits "
            "(home/away minima 1..3, also unequal) and no separation limits "
            "through the public constructor; the QAP "
            "example searches on the 32 QAPLIB instances with n <= 16; the "
            "instance-generation CMA-ES with reduced inner budgets and slack "
            "0..1 (plus 24 further decoded points per run); the "
            "controller-synthesis CMA-ES / surrogate runs on down-scaled "
            "systems. Every configuration is executed twice with the same "
            "seed. A configuration is non-trivial when at least one "
            "improvement happened after the first evaluation; distinct = "
            "distinct configuration tuples",
    "assumptions": [
        "independent oracles: vf/oracle_bp (feasibility, seven objective "
        "definitions), vf/oracle_tsp (tour length, QAP sum), vf/oracle_ttp "
        "(feasibility, per-rule error count for complete plans and - "
        "without separation limits - for plans with idle days, travel "
        "length), vf/oracle_instgen invariants",
        "for TTP plans with byes, generated instances (hardness is a nested "
        "randomised run) and controller synthesis the logged value is "
        "compared with the value of freshly constructed objective objects "
        "(differential oracle), in addition to the range / zero-iff-feasible "
        "clauses",
        "termination is observed only as 'every generated run returned' with "
        "consumed FEs <= budget",
        "moptipy (Execution, algorithms, log writer/parser) is a trusted "
        "dependency"],
    "thorough_scale": 2,
    "shards": [6, 16],
    "quick_scale": 1,
    "technique": "property-based testing: Hypothesis-generated run "
                 "configurations; metamorphic same-seed re-run, round trip "
                 "through the log files, independent re-evaluation of the "
                 "returned solutions",
    "level_text": "Generated-configuration search over all six families of "
                  "bundled experiment set-ups with small budgets: each run is "
                  "repeated with the same seed, its result re-evaluated by "
                  "independent oracles and its log file parsed back. Covers "
                  "only small budgets and small instances; no absence claim.",
    "level_note": "Trusted: moptipy's Execution/logging, the oracles named "
                  "in assumptions. Budgets are evaluation counts, never wall "
                  "clock.",
}

BP_RESOURCES = ("a01", "a02", "a03", "a04", "a05", "a10", "a12", "a20",
                "beng01", "beng02", "beng03", "beng06", "cl01_020_01",
                "cl02_020_03", "cl03_020_05", "cl04_020_02", "cl05_020_07",
                "cl06_020_01", "cl07_020_04", "cl08_020_09", "cl09_020_06",
                "cl10_020_10", "cl01_040_02", "asqas03", "asqas08")
TSP_RESOURCES = ("att48", "bayg29", "bays29", "berlin52", "brazil58",
                 "burma14", "cn11", "dantzig42", "eil51", "fri26", "gr17",
                 "gr21", "gr24", "gr48", "hk48", "swiss42", "ulysses16",
                 "ulysses22")
QAP_RESOURCES = ("chr12a", "chr12b", "chr12c", "chr15a", "chr15b", "chr15c",
                 "esc16a", "esc16b", "esc16c", "esc16d", "esc16e", "esc16f",
                 "esc16g", "esc16h", "esc16i", "esc16j", "had12", "had14",
                 "had16", "nug12", "nug14", "nug15", "nug16a", "nug16b",
                 "rou12", "rou15", "scr12", "scr15", "tai12a", "tai12b",
                 "tai15a", "tai15b")
TTP_RESOURCES = ("circ4", "circ6", "circ8", "circ10", "con4", "gal4",
                 "nl4", "nl6", "sup4", "line4", "incr4", "con6", "gal6",
                 "nl8", "nl10", "circ12", "gal8", "sup8")
INSTGEN_TEMPLATES = ("beng01", "beng02", "cl01_020_01", "cl02_020_01",
                     "cl03_020_01", "cl07_020_01", "cl10_020_01", "a01",
                     "a04")
SEEDS = st.integers(0, 2 ** 64 - 1)


# ----------------------------------------------------------------------------
# helpers
# ----------------------------------------------------------------------------

def load_example(name: str) -> Any:
    """Import examples/<name>.py of the tree under test."""
    path = os.path.join(os.environ["VERIF_REPO"], "examples", name + ".py")
    spec = importlib.util.spec_from_file_location("vf_example_" + name, path)
    mod = importlib.util.module_from_spec(spec)
    spec.loader.exec_module(mod)  # the examples guard their main code
    return mod


def run_once(make_exec: Callable[[], Any], seed: int, budget: int,
             make_y: Callable[[], Any] | None, log_file: str | None = None,
             mo: bool = False) -> dict:
    """Execute one run; return everything the property talks about."""
    ex = make_exec()
    ex.set_max_fes(budget, True)
    ex.set_rand_seed(seed)
    own_dir = None
    if log_file is None:  # the bundled set-ups log: they need a file
        own_dir = tempfile.mkdtemp(prefix="vf_c12_log_")
        log_file = os.path.join(own_dir, "run.txt")
    ex.set_log_file(log_file)
    res: dict[str, Any] = {}
    try:
        _execute(ex, res, make_y, mo)
    finally:
        if own_dir is not None:
            shutil.rmtree(own_dir, ignore_errors=True)
    return res


def shared(make_exec: Callable[[], Any]) -> Callable[[], Any]:
    """The second run of a configuration re-uses the Execution object (and
    with it the algorithm, objective and encoding objects) of the first one:
    "repeating the run" must not depend on state left behind by a run."""
    memo: list = []

    def get() -> Any:
        if not memo:
            memo.append(make_exec())
        return memo[0]

    return get


def _execute(ex: Any, res: dict, make_y: Callable[[], Any] | None,
             mo: bool) -> None:
    with ex.execute() as proc:
        res["best_f"] = proc.get_best_f()
        res["fes"] = proc.get_consumed_fes()
        res["last_imp"] = proc.get_last_improvement_fe()
        x = proc.create()
        proc.get_copy_of_best_x(x)
        res["x"] = x
        if make_y is not None:
            y = make_y()
            proc.get_copy_of_best_y(y)
            res["y"] = y
        if mo:
            fs = proc.f_create()
            proc.get_copy_of_best_fs(fs)
            res["fs"] = [v.item() for v in fs]


def as_list(a: Any) -> Any:
    import numpy as np
    if isinstance(a, np.ndarray):
        return a.tolist()
    if isinstance(a, list):
        return [as_list(v) for v in a]
    return a


def same_run(a: dict, b: dict, what: str, cmp_y: Callable | None = None
             ) -> None:
    import numpy as np
    for key in ("best_f", "fes", "last_imp"):
        require(a[key] == b[key] and type(a[key]) is type(b[key]),
                lambda: f"{what}: same seed gave {key}={a[key]!r} and then "
                f"{b[key]!r}")
    require(np.array_equal(np.asarray(a["x"]), np.asarray(b["x"])),
            f"{what}: same seed gave different best x")
    if "y" in a:
        if cmp_y is not None:
            require(cmp_y(a["y"], b["y"]),
                    f"{what}: same seed gave different best y")
        else:
            require(np.array_equal(np.asarray(a["y"]), np.asarray(b["y"])),
                    f"{what}: same seed gave different best y")
    if "fs" in a:
        require(a["fs"] == b["fs"],
                f"{what}: same seed gave different objective vectors")


def budget_ok(r: dict, budget: int, what: str) -> None:
    require(1 <= r["fes"] <= budget,
            lambda: f"{what}: consumed {r['fes']} FEs with budget {budget}")
    require(1 <= r["last_imp"] <= r["fes"],
            lambda: f"{what}: last improvement at FE {r['last_imp']} of "
            f"{r['fes']}")


class TempDir:
    def __enter__(self) -> str:
        self.d = tempfile.mkdtemp(prefix="vf_c12_")
        return self.d

    def __exit__(self, *a: Any) -> None:
        shutil.rmtree(self.d, ignore_errors=True)


def log_path(base: str, algo: str, inst: str, seed: int) -> str:
    from moptipy.utils.strings import sanitize_names
    d = os.path.join(base, algo, inst)
    os.makedirs(d, exist_ok=True)
    return os.path.join(d, sanitize_names([algo, inst, hex(seed)]) + ".txt")


# ----------------------------------------------------------------------------
# A. bin packing
# ----------------------------------------------------------------------------

@st.composite
def bp_cases(draw: Any) -> dict:
    which = draw(st.integers(0, 5))
    if which == 5:
        # pieces of 1..3 cut-up bins (a packing into that many bins exists):
        # the searches often reach the optimum, i.e. the declared bounds
        g = draw(gen_bp.guillotine_shaped(max_bins=3, max_dim=30, big_dim=60))
        gc = {"W": g["W"], "H": g["H"],
              "items": [list(r) for r in g["items"]]}
        if sum(it[2] for it in gc["items"]) < 2:
            gc["items"][0][2] = 2
        inst: dict = {"kind": "gen", "case": gc, "cut_from_bins": g["k"]}
    elif which >= 2:
        gc = draw(gen_bp.instances(
            classes=("tiny", "small", "small", "medium", "medium",
                     "int8_edge", "int8_edge", "nitems_edge"), max_types=5,
            max_items=10))
        if sum(it[2] for it in gc["items"]) < 2:
            gc["items"][0][2] = 2  # moptipy's search space needs >= 2 items
        inst = {"kind": "gen", "case": gc}
    else:
        inst = {"kind": "res", "name": draw(st.sampled_from(BP_RESOURCES))}
    return {"family": "bp", "setup": draw(st.sampled_from(["rls", "fea"])),
            "obj": draw(st.integers(0, 6)), "enc": draw(st.integers(1, 2)),
            "inst": inst, "seed": draw(SEEDS),
            "budget": draw(st.integers(20, 300))}


def check_bp(ctx: Ctx, case: dict) -> None:
    import numpy as np
    from moptipy.evaluation.end_results import from_logs as er_from_logs
    from moptipyapps.binpacking2d import experiment as bpe
    from moptipyapps.binpacking2d import packing_result as pres
    from moptipyapps.binpacking2d.encodings.ibl_encoding_1 import (
        ImprovedBottomLeftEncoding1 as E1,
    )
    from moptipyapps.binpacking2d.encodings.ibl_encoding_2 import (
        ImprovedBottomLeftEncoding2 as E2,
    )
    from moptipyapps.binpacking2d.instance import Instance
    from moptipyapps.binpacking2d.packing import Packing
    from moptipyapps.binpacking2d.packing_space import PackingSpace

    ic = case["inst"]
    if ic["kind"] == "res":
        inst = Instance.from_resource(ic["name"])
    else:
        inst = gen_bp.build_instance(ic["case"], name="gen")
    W, H = int(inst.bin_width), int(inst.bin_height)
    items = [[int(v) for v in row] for row in inst]
    enc_cls = E1 if case["enc"] == 1 else E2
    obj_cls = pres.DEFAULT_OBJECTIVES[case["obj"]]
    setup = getattr(bpe, case["setup"])
    what = f"bp/{case['setup']}/{obj_cls.__name__}/enc{case['enc']}"

    def make() -> Any:
        return setup(inst, enc_cls, obj_cls)

    space = PackingSpace(inst)
    ex0 = sut(what + " set-up", make)  # must work for every valid instance
    algo = str(ex0._algorithm) if hasattr(ex0, "_algorithm") else "algo"
    with TempDir() as tmp:
        f1 = log_path(tmp, algo, inst.name, case["seed"])
        same = shared(make)
        r1 = sut(what + " run", run_once, same, case["seed"],
                 case["budget"], space.create, f1)
        r2 = sut(what + " re-run (same objects)", run_once, same,
                 case["seed"], case["budget"], space.create, None)
        r3 = sut(what + " re-run (new objects)", run_once, make,
                 case["seed"], case["budget"], space.create, None)
        budget_ok(r1, case["budget"], what)
        same_run(r1, r2, what + " (same objects)")
        same_run(r1, r3, what + " (new objects)")
        y = r1["y"]
        rows = gen_bp.rows_of(y)
        why = oracle_bp.infeasibility(W, H, items, rows, y.n_bins)
        require(not why, lambda: f"{what}: final packing infeasible: {why[:3]}")
        vals = oracle_bp.objectives(W, H, rows)
        name = str(obj_cls(inst))
        require(name in vals, f"unknown objective name {name}")
        require(r1["best_f"] == vals[name] and type(r1["best_f"]) is int,
                lambda: f"{what}: best_f={r1['best_f']!r} but the returned "
                f"packing has {name}={vals[name]}")
        # through the encoding: x decodes to y
        y2 = gen_bp.decode(inst, [int(v) for v in r1["x"]], case["enc"], 7)
        require(np.array_equal(y2, y) and y2.n_bins == y.n_bins,
                f"{what}: best x does not decode to best y")
        # the log file: packing, end result, objective values, bounds
        pk = sut("Packing.from_log", Packing.from_log, f1, inst)
        require(np.array_equal(pk, y) and pk.n_bins == y.n_bins
                and pk.dtype is y.dtype,
                f"{what}: packing parsed from the log differs")
        ers: list = []
        sut("end_results.from_logs", er_from_logs, f1, ers.append)
        require(len(ers) == 1, f"{len(ers)} end results in one log")
        er = ers[0]
        require(er.best_f == r1["best_f"] and er.total_fes == r1["fes"]
                and er.last_improvement_fe == r1["last_imp"]
                and er.rand_seed == case["seed"]
                and er.instance == inst.name and er.algorithm == algo,
                lambda: f"{what}: end result of the log {er} differs from "
                f"the run {r1['best_f'], r1['fes'], r1['last_imp']}")
        pr = sut("from_packing_and_end_result",
                 pres.from_packing_and_end_result, er, pk)
        check_packing_result(pr, inst, vals, what)
        if ic["kind"] == "res":
            pr2 = sut("from_single_log", pres.from_single_log, f1)
            check_packing_result(pr2, inst, vals, what + " single_log")
            got: list = []
            sut("from_logs", pres.from_logs, tmp, got.append)
            require(len(got) == 1, f"from_logs found {len(got)} results")
            check_packing_result(got[0], inst, vals, what + " from_logs")
            require(got[0].end_result == er, "from_logs: other end result")
    ctx.rec.case(case, nontrivial=r1["last_imp"] > 1, labels=[
        "family=bp", f"bp.setup={case['setup']}", "bp.inst=cut_bins" if ic.get("cut_from_bins")
        else f"bp.inst={ic['kind']}",
        f"bp.obj={case['obj']}", f"bp.enc={case['enc']}",
        "stopped_early" if r1["fes"] < case["budget"] else "full_budget"])


def check_packing_result(pr: Any, inst: Any, vals: dict, what: str) -> None:
    require(dict(pr.objectives) == vals, lambda: f"{what}: objective values "
            f"{dict(pr.objectives)} differ from the oracle's {vals}")
    require(pr.n_items == inst.n_items and pr.n_different_items
            == inst.n_different_items and pr.bin_width == inst.bin_width
            and pr.bin_height == inst.bin_height, f"{what}: instance data")
    area = sum(int(r[0]) * int(r[1]) * int(r[2]) for r in inst)
    geo = -(-area // (int(inst.bin_width) * int(inst.bin_height)))
    bb = dict(pr.bin_bounds)
    require(bb.get("bins.lowerBound") == inst.lower_bound_bins
            and bb.get("bins.lowerBound.geometric") == geo
            and geo <= inst.lower_bound_bins
            and bb.get("bins.lowerBound.damv", 0) <= inst.lower_bound_bins,
            lambda: f"{what}: bin bounds {bb}")
    ob = dict(pr.objective_bounds)
    for name, v in vals.items():
        lo, hi = ob.get(name + ".lowerBound"), ob.get(name + ".upperBound")
        require(lo is not None and hi is not None and lo <= v <= hi,
                lambda: f"{what}: {name}={v} outside logged bounds {lo, hi}")


# ----------------------------------------------------------------------------
# B. TSP
# ----------------------------------------------------------------------------

@st.composite
def tsp_cases(draw: Any) -> dict:
    if draw(st.booleans()):
        inst: dict = {"kind": "res",
                      "name": draw(st.sampled_from(TSP_RESOURCES))}
    else:
        n = draw(st.integers(4, 12))
        hi = draw(st.sampled_from([1, 9, 100, 1000]))
        m = [[0] * n for _ in range(n)]
        for i in range(n):
            for j in range(i):
                m[i][j] = m[j][i] = draw(st.integers(0, hi))
        for i in range(n):  # a positive entry per row
            if not any(m[i]):
                j = (i + 1) % n
                m[i][j] = m[j][i] = 1
        inst = {"kind": "gen", "m": m}
    return {"family": "tsp", "setup": draw(st.sampled_from(
        ["ea", "fea", "rls"])), "inst": inst, "seed": draw(SEEDS),
        "budget": draw(st.integers(50, 1000))}


def check_tsp(ctx: Ctx, case: dict) -> None:
    import numpy as np
    from moptipy.algorithms.so.rls import RLS
    from moptipy.api.execution import Execution
    from moptipy.operators.permutations.op0_shuffle import Op0Shuffle
    from moptipy.operators.permutations.op1_swapn import Op1SwapN
    from moptipy.spaces.permutations import Permutations
    from moptipyapps.tsp.ea1p1_revn import TSPEA1p1revn
    from moptipyapps.tsp.fea1p1_revn import TSPFEA1p1revn
    from moptipyapps.tsp.instance import Instance
    from moptipyapps.tsp.tour_length import TourLength
    from vf import oracle_tsp

    ic = case["inst"]
    if ic["kind"] == "res":
        inst = Instance.from_resource(ic["name"])
    else:
        inst = Instance("gen", 0, np.array(ic["m"], dtype=np.int64))
    n = int(inst.n_cities)
    m = [[int(v) for v in row] for row in np.asarray(inst)]
    space = Permutations.standard(n)
    what = f"tsp/{case['setup']}"

    def make() -> Any:
        ex = Execution().set_solution_space(space).set_objective(
            TourLength(inst))
        if case["setup"] == "ea":
            return ex.set_algorithm(TSPEA1p1revn(inst))
        if case["setup"] == "fea":
            return ex.set_algorithm(TSPFEA1p1revn(inst))
        return ex.set_algorithm(RLS(Op0Shuffle(space), Op1SwapN()))

    same = shared(make)
    r1 = sut(what + " run", run_once, same, case["seed"], case["budget"],
             None)
    r2 = sut(what + " re-run (same objects)", run_once, same, case["seed"],
             case["budget"], None)
    r3 = sut(what + " re-run (new objects)", run_once, make, case["seed"],
             case["budget"], None)
    budget_ok(r1, case["budget"], what)
    same_run(r1, r2, what + " (same objects)")
    same_run(r1, r3, what + " (new objects)")
    x = [int(v) for v in r1["x"]]
    require(oracle_tsp.is_permutation(x, n), f"{what}: result {x} is not a "
            "permutation")
    length = oracle_tsp.cyclic_length(m, x)
    require(r1["best_f"] == length and type(r1["best_f"]) is int,
            lambda: f"{what}: best_f={r1['best_f']!r} but the tour has "
            f"length {length}")
    ctx.rec.case(case, nontrivial=r1["last_imp"] > 1, labels=[
        "family=tsp", f"tsp.setup={case['setup']}", f"tsp.inst={ic['kind']}"])


# ----------------------------------------------------------------------------
# C. TTP (example scripts)
# ----------------------------------------------------------------------------

@st.composite
def ttp_cases(draw: Any) -> dict:
    case = {"family": "ttp", "setup": draw(st.sampled_from(
        ["rls", "rs", "mo_rls", "mo_nsga2"])),
        "inst": draw(st.sampled_from(TTP_RESOURCES)), "seed": draw(SEEDS),
        # tiny budgets return plans with byes, larger ones complete plans
        "budget": draw(st.one_of(st.integers(1, 12), st.integers(20, 400)))}
    if draw(st.integers(0, 2)) == 0:
        # the same cities and distances with other streak limits (the
        # bundled files all have 1..3 / 1..3) and no separation limits,
        # through the public Instance constructor; under these the error
        # count is documented for plans with idle days, too
        case["inst"] = draw(st.sampled_from(TTP_RESOURCES[:12]))
        hmin, amin = draw(st.sampled_from(
            [(1, 2), (2, 1), (1, 3), (3, 1), (2, 2), (2, 3), (3, 2)]))
        case["streaks"] = [hmin, hmin + draw(st.integers(0, 2)),
                           amin, amin + draw(st.integers(0, 2))]
        case["budget"] = draw(st.one_of(st.integers(1, 12),
                                        st.integers(13, 60)))
        if draw(st.booleans()):
            # ... and with binding separation limits; the error count of
            # complete plans (larger budgets) is compared rule by rule
            smin = draw(st.integers(0, 2))
            case["sep"] = [smin, smin + draw(st.integers(0, 4))]
            case["inst"] = draw(st.sampled_from(
                [r for r in TTP_RESOURCES if r[-1] in "46"]))
            # random sampling returns complete plans that still break many
            # rules; the local searches repair separation errors first
            case["setup"] = draw(st.sampled_from(["rs", "rs", "rls",
                                                  "mo_nsga2", "mo_rls"]))
            case["budget"] = draw(st.integers(30, 400))
    return case


def check_ttp(ctx: Ctx, case: dict) -> None:
    import numpy as np
    from moptipyapps.ttp.errors import Errors
    from moptipyapps.ttp.game_encoding import GameEncoding
    from moptipyapps.ttp.game_plan_space import GamePlanSpace
    from moptipyapps.ttp.instance import Instance
    from moptipyapps.ttp.plan_length import GamePlanLength
    from vf import oracle_ttp

    mo = case["setup"].startswith("mo_")
    mod = load_example("ttp_example_experiment_mo" if mo
                       else "ttp_example_experiment_rls_rs")
    setup = getattr(mod, {"mo_rls": "rls", "mo_nsga2": "mo_nsga2"}.get(
        case["setup"], case["setup"]))
    inst = Instance.from_resource(case["inst"])
    if case.get("streaks"):
        days = (int(inst.n_cities) - 1) * int(inst.rounds)
        inst = sut("ttp Instance()", Instance, inst.name + "s",
                   np.array(inst), inst.teams, int(inst.rounds),
                   *case["streaks"], *(case.get("sep") or (0, days)))
    n, rounds = int(inst.n_cities), int(inst.rounds)
    stg = (inst.home_streak_min, inst.home_streak_max, inst.away_streak_min,
           inst.away_streak_max, inst.separation_min, inst.separation_max)
    space = GamePlanSpace(inst)
    what = f"ttp/{case['setup']}/{inst.name}"

    def make() -> Any:
        return setup(inst)

    same = shared(make)
    r1 = sut(what + " run", run_once, same, case["seed"], case["budget"],
             space.create, None, mo)
    r2 = sut(what + " re-run (same objects)", run_once, same, case["seed"],
             case["budget"], space.create, None, mo)
    r3 = sut(what + " re-run (new objects)", run_once, make, case["seed"],
             case["budget"], space.create, None, mo)
    budget_ok(r1, case["budget"], what)
    same_run(r1, r2, what + " (same objects)")
    same_run(r1, r3, what + " (new objects)")
    y = r1["y"]
    sut("GamePlanSpace.validate", space.validate, y)
    plan = [[int(v) for v in row] for row in y]
    require(oracle_ttp.shape_ok(plan, n, rounds) and all(
        -n <= v <= n for row in plan for v in row), f"{what}: bad plan shape")
    # through the encoding: x decodes to y
    y2 = space.create()
    sut("GameEncoding.decode", GameEncoding(inst).decode, r1["x"], y2)
    require(np.array_equal(y2, y), f"{what}: best x does not decode to best y")
    # independent re-evaluation
    why = oracle_ttp.infeasibility(plan, n, rounds, stg)
    errs_fresh = Errors(inst).evaluate(y)
    require((errs_fresh == 0) == (not why), lambda: f"{what}: errors="
            f"{errs_fresh} but the brute-force checker says {why[:3]}")
    complete = oracle_ttp.is_complete(plan) and not \
        oracle_ttp.inconsistencies(plan)
    if complete:
        cnt = sum(oracle_ttp.rule_counts(plan, n, rounds, stg).values())
        require(errs_fresh == cnt, lambda: f"{what}: Errors={errs_fresh} "
                f"but the per-rule count is {cnt}")
    elif stg[4] == 0 and stg[5] >= (n - 1) * rounds - 2 and not \
            oracle_ttp.inconsistencies(plan) and not \
            oracle_ttp.self_play(plan):
        cnt = sum(oracle_ttp.rule_counts_with_byes(
            plan, n, rounds, stg).values())
        require(errs_fresh == cnt, lambda: f"{what}: Errors={errs_fresh} "
                f"but the documented count for the plan with idle days is "
                f"{cnt} (streak limits {stg[:4]}, plan {plan})")
    dist = [[int(v) for v in row] for row in np.asarray(inst)]
    length = oracle_ttp.travel_length(plan, dist)
    # the travel length of the returned plan (second objective of the
    # multi-objective set-ups) - evaluated for every returned plan
    len_fresh = sut("GamePlanLength.evaluate", GamePlanLength(inst).evaluate,
                    y)
    require(len_fresh == length, lambda: f"{what}: plan length "
            f"{len_fresh} but the walk gives {length} (plan {plan})")
    if mo:
        if "fs" in r1:
            require(r1["fs"] == [errs_fresh, length], lambda: f"{what}: "
                    f"logged objective vector {r1['fs']} but the solution "
                    f"has (errors, length)={errs_fresh, length}")
    else:
        require(r1["best_f"] == errs_fresh and type(r1["best_f"]) is int,
                lambda: f"{what}: best_f={r1['best_f']!r} but the plan has "
                f"{errs_fresh} errors")
    ctx.rec.case(case, nontrivial=r1["last_imp"] > 1, labels=[
        "family=ttp", f"ttp.setup={case['setup']}",
        "ttp.complete_plan" if complete else "ttp.plan_with_byes",
        "ttp.own_streak_and_separation_limits" if case.get("sep") else
        "ttp.own_streak_limits" if case.get("streaks")
        else "ttp.bundled_limits",
        "ttp.feasible" if not why else "ttp.infeasible"])


# ----------------------------------------------------------------------------
# D. QAP (example script)
# ----------------------------------------------------------------------------

@st.composite
def qap_cases(draw: Any) -> dict:
    return {"family": "qap", "setup": draw(st.sampled_from(["rls", "rs"])),
            "inst": draw(st.sampled_from(QAP_RESOURCES)), "seed": draw(SEEDS),
            "budget": draw(st.integers(20, 400))}


def check_qap(ctx: Ctx, case: dict) -> None:
    import numpy as np
    from moptipyapps.qap.instance import Instance
    from vf import oracle_tsp
    mod = load_example("qap_example_experiment_rls_rs")
    inst = Instance.from_resource(case["inst"])
    n = int(inst.n)
    what = f"qap/{case['setup']}/{case['inst']}"

    def make() -> Any:
        return getattr(mod, case["setup"])(inst)

    same = shared(make)
    r1 = sut(what + " run", run_once, same, case["seed"], case["budget"],
             None)
    r2 = sut(what + " re-run (same objects)", run_once, same, case["seed"],
             case["budget"], None)
    r3 = sut(what + " re-run (new objects)", run_once, make, case["seed"],
             case["budget"], None)
    budget_ok(r1, case["budget"], what)
    same_run(r1, r2, what + " (same objects)")
    same_run(r1, r3, what + " (new objects)")
    p = [int(v) for v in r1["x"]]
    require(oracle_tsp.is_permutation(p, n), f"{what}: not a permutation")
    flows = [[int(v) for v in row] for row in np.asarray(inst.flows)]
    dists = [[int(v) for v in row] for row in np.asarray(inst.distances)]
    val = oracle_tsp.qap_value(flows, dists, p)
    require(r1["best_f"] == val and type(r1["best_f"]) is int,
            lambda: f"{what}: best_f={r1['best_f']!r}, flow-distance sum "
            f"of the returned permutation is {val}")
    ctx.rec.case(case, nontrivial=r1["last_imp"] > 1, labels=[
        "family=qap", f"qap.setup={case['setup']}"])


# ----------------------------------------------------------------------------
# E. instance generation
# ----------------------------------------------------------------------------

@st.composite
def instgen_cases(draw: Any) -> dict:
    return {"family": "instgen",
            "template": draw(st.sampled_from(INSTGEN_TEMPLATES)),
            "slack": draw(st.sampled_from([0.0, 0.125, 0.25, 0.25, 0.5,
                                           1.0])),
            "inner_fes": draw(st.integers(2, 40)),
            "inner_runs": draw(st.integers(1, 2)),
            "seed": draw(SEEDS), "budget": draw(st.integers(4, 10))}


def check_instgen(ctx: Ctx, case: dict) -> None:
    from moptipyapps.binpacking2d.instgen import experiment as ige
    from moptipyapps.binpacking2d.instgen.errors_and_hardness import (
        ErrorsAndHardness,
    )
    from moptipyapps.binpacking2d.instgen.problem import Problem
    what = f"instgen/{case['template']}/{case['slack']}"
    old = (ige.INNER_MAX_FES, ige.INNER_RUNS)
    ige.INNER_MAX_FES, ige.INNER_RUNS = case["inner_fes"], case["inner_runs"]
    try:
        prob = Problem(case["template"], case["slack"])

        def make() -> Any:
            return ige.cmaes(prob)

        r1 = sut(what + " run", run_once, make, case["seed"], case["budget"],
                 prob.solution_space.create)
        r2 = sut(what + " re-run", run_once, make, case["seed"],
                 case["budget"], prob.solution_space.create)
    finally:
        ige.INNER_MAX_FES, ige.INNER_RUNS = old
    budget_ok(r1, case["budget"], what)

    def same_inst(a: Any, b: Any) -> bool:
        return a[0].to_compact_str() == b[0].to_compact_str()

    same_run(r1, r2, what, same_inst)
    sp = prob.solution_space
    x = r1["x"]
    require(len(x) == prob.search_space.dimension and all(
        -1.0 <= float(v) <= 1.0 for v in x), f"{what}: x outside [-1,1]^d")
    g = r1["y"][0]
    sut("InstanceSpace.validate", sp.validate, r1["y"])
    bin_area = int(sp.bin_width) * int(sp.bin_height)
    require(g.name == sp.inst_name and g.bin_width == sp.bin_width
            and g.bin_height == sp.bin_height and g.n_items == sp.n_items,
            f"{what}: generated instance does not match the template")
    require((sp.min_bins - 1) * bin_area < g.total_item_area
            <= sp.min_bins * bin_area and g.lower_bound_bins == sp.min_bins,
            lambda: f"{what}: area {g.total_item_area} / lower bound "
            f"{g.lower_bound_bins} do not need exactly {sp.min_bins} bins")
    require(0.0 <= r1["best_f"] <= 1.0, f"{what}: best_f={r1['best_f']}")
    # the decoder is the last step of every run: what it makes of other
    # points of the search space (as a run with another seed or budget would
    # return them) passes the same independent check
    import random
    rnd = random.Random(case["seed"])  # noqa: S311 - part of the case
    xs = prob.search_space.create()
    for k in range(24):
        for i in range(len(xs)):
            xs[i] = rnd.uniform(-1.0, 1.0) if k % 3 else rnd.choice(
                (-1.0, -0.5, 0.0, 0.5, 1.0, rnd.uniform(-1.0, 1.0)))
        yk = sp.create()
        sut("InstanceDecoder.decode", prob.encoding.decode, xs, yk)
        gk = yk[0]
        require(gk.n_items == sp.n_items and all(
            1 <= int(r[0]) <= sp.bin_width and 1 <= int(r[1])
            <= sp.bin_height or 1 <= int(r[1]) <= sp.bin_width
            and 1 <= int(r[0]) <= sp.bin_height for r in gk)
            and (sp.min_bins - 1) * bin_area < gk.total_item_area
            <= sp.min_bins * bin_area, lambda: f"{what}: the point "
            f"{list(xs)} decodes to an instance with {gk.n_items} items of "
            f"total area {gk.total_item_area}: it does not need exactly "
            f"{sp.min_bins} bins of area {bin_area}")
    # through the encoding, and differential re-evaluation
    y2 = sp.create()
    prob.encoding.decode(x, y2)
    require(same_inst(y2, r1["y"]), f"{what}: best x does not decode to "
            "best y")
    f2 = ErrorsAndHardness(sp, case["inner_fes"], case["inner_runs"])
    v2 = f2.evaluate(r1["y"])
    require(v2 == r1["best_f"], lambda: f"{what}: best_f={r1['best_f']!r} "
            f"but a fresh objective gives {v2!r} for the returned instance")
    ctx.rec.case(case, nontrivial=r1["last_imp"] > 1, labels=[
        "family=instgen", f"instgen.slack={case['slack']}"])


# ----------------------------------------------------------------------------
# F. controller synthesis
# ----------------------------------------------------------------------------

DC_SYSTEMS = ("stuart_landau", "lorenz", "three_coupled_oscillators")
DC_WATCHDOG_S = 45.0


@st.composite
def dc_cases(draw: Any) -> dict:
    system = draw(st.sampled_from(DC_SYSTEMS))
    setup = draw(st.sampled_from(["raw", "surrogate_raw", "surrogate"]))
    return {"family": "dc", "system": system, "setup": setup,
            "controller": draw(st.integers(0, 40)),
            "training": draw(st.integers(1, 3)),
            "steps": draw(st.integers(10, 24)),
            "time": draw(st.sampled_from([0.25, 0.5, 1.0, 2.0])),
            "warmup": draw(st.integers(2, 5)),
            "train_fes": draw(st.integers(4, 16)),
            "model_fes": draw(st.integers(4, 10)),
            "seed": draw(SEEDS), "budget": draw(st.integers(6, 10))}


def small_system(case: dict) -> Any:
    """Rebuild a bundled system with a small simulation budget."""
    if case["system"] == "stuart_landau":
        from moptipyapps.dynamic_control.systems.stuart_landau import (
            STUART_LANDAU_4 as base,
        )
    elif case["system"] == "lorenz":
        from moptipyapps.dynamic_control.systems.lorenz import LORENZ_4 as base
    else:
        from moptipyapps.dynamic_control.systems.three_coupled_oscillators \
            import THREE_COUPLED_OSCILLATORS as base
    k = min(case["training"], len(base.training_starting_states))
    return _clone_system(base, k, case)


def _clone_system(base: Any, k: int, case: dict) -> Any:
    import inspect

    import numpy as np
    from moptipyapps.dynamic_control.system import System
    sig = inspect.signature(System.__init__)
    kw: dict[str, Any] = {}
    for name in list(sig.parameters)[1:]:
        if name == "name":
            kw[name] = base.name + "s"
        elif name == "test_starting_states":
            kw[name] = np.array(base.test_starting_states[:1])
        elif name == "training_starting_states":
            kw[name] = np.array(base.training_starting_states[:k])
        elif name == "training_steps":
            kw[name] = case["steps"]
        elif name == "training_time":
            kw[name] = float(case["time"])
        elif name == "test_steps":  # differs from the training budget
            kw[name] = case["steps"] + 2
        elif name == "test_time":
            kw[name] = float(case["time"]) * 2.0
        elif name == "plot_examples":
            kw[name] = (0,)
        else:
            kw[name] = getattr(base, name)
    s = System(**kw)
    s.equations = base.equations
    return s


def check_dc(ctx: Ctx, case: dict) -> None:
    shim = case["setup"] != "raw" and "F13" in ctx.active_findings \
        and not ctx.replaying
    # A surrogate model can be arbitrarily stiff, RK45 then needs millions of
    # steps: each configuration runs in a forked child under a generous
    # watchdog; a hit is "inconclusive", never a violation.
    def job() -> tuple:
        if shim:  # open finding F13 (pinned dependency): go on behind it
            with F13Shim():
                return _check_dc(ctx, case, ["dc.f13_shim"])
        return _check_dc(ctx, case, [])

    try:
        nontrivial, labels = isolated(job, DC_WATCHDOG_S)
    except CaseTimeout:
        ctx.rec.inconc("dc_watchdog")
        ctx.rec.label(f"dc.watchdog.{case['setup']}")
        return
    if shim:
        ctx.rec.exclude("F13")
    ctx.rec.case(case, nontrivial=nontrivial, labels=labels)


class F13Shim:
    """Harness-side workaround for the open finding F13: moptipy's BiPopCMAES
    hands numpy integers to pycommons' num_to_str. Only installed while F13 is
    an active (reproduced) known finding."""

    def __enter__(self) -> None:
        import numpy as np
        from moptipy.algorithms.so.vector import cmaes_lib
        self.mod = cmaes_lib
        self.orig = cmaes_lib.num_to_str
        orig = self.orig
        cmaes_lib.num_to_str = lambda v: orig(
            int(v) if isinstance(v, (np.integer, bool, np.bool_)) else v)

    def __exit__(self, *a: Any) -> None:
        self.mod.num_to_str = self.orig


def _check_dc(ctx: Ctx, case: dict, extra_labels: list[str]) -> tuple:
    import numpy as np
    from moptipyapps.dynamic_control import experiment_raw as er
    from moptipyapps.dynamic_control import experiment_surrogate as es
    from moptipyapps.dynamic_control.controllers.ann import anns, make_ann
    from moptipyapps.dynamic_control.controllers.cubic import cubic
    from moptipyapps.dynamic_control.controllers.linear import linear
    from moptipyapps.dynamic_control.controllers.partially_linear import (
        partially_linear,
    )
    from moptipyapps.dynamic_control.controllers.peaks import peaks
    from moptipyapps.dynamic_control.controllers.predefined import predefined
    from moptipyapps.dynamic_control.controllers.quadratic import quadratic
    from moptipyapps.dynamic_control.instance import Instance
    from moptipyapps.dynamic_control.objective import FigureOfMeritLE
    from moptipyapps.dynamic_control.system_model import SystemModel

    system = small_system(case)
    sd, cd = system.state_dims, system.control_dims
    ctrls: list = []
    if cd == 1 and sd in (2, 3):
        ctrls = [linear(system), quadratic(system), cubic(system)]
        ctrls.extend(anns(system))
        ctrls.extend(partially_linear(system))
        ctrls.extend(predefined(system))
        ctrls.extend(peaks(system))
    ctrls.append(make_ann(sd, cd, [sd]))
    ctrls.append(make_ann(sd, cd, [sd, sd]))
    ctrls = [c for c in ctrls if c.param_dims > 0]
    controller = ctrls[case["controller"] % len(ctrls)]
    what = f"dc/{case['setup']}/{case['system']}/{controller}"
    if case["setup"] == "raw":
        inst: Any = Instance(system, controller)

        def make() -> Any:
            return er.cmaes(inst)
        model_mode = False
    else:
        inst = SystemModel(system, controller,
                           make_ann(sd + cd, sd, [sd]))
        model_mode = True
        if case["setup"] == "surrogate_raw":
            def make() -> Any:
                return es.cmaes_raw(inst)
        else:
            def make() -> Any:
                return es.cmaes_surrogate(
                    inst, min(case["warmup"], case["budget"] - 1),
                    case["train_fes"], case["model_fes"], False)

    r1 = sut(what + " run", run_once, make, case["seed"], case["budget"],
             None)
    r2 = sut(what + " re-run", run_once, make, case["seed"], case["budget"],
             None)
    budget_ok(r1, case["budget"], what)
    same_run(r1, r2, what)
    space = controller.parameter_space()
    x = np.asarray(r1["x"], dtype=float)
    require(len(x) == controller.param_dims and bool(np.all(
        (x >= space.lower_bound) & (x <= space.upper_bound))),
        f"{what}: best x leaves the parameter box")
    f = r1["best_f"]
    require((0.0 <= f <= 1e100) or f == 1e200, f"{what}: best_f={f!r}")
    fresh = FigureOfMeritLE(inst, model_mode)
    fresh.initialize()
    v = fresh.evaluate(x)
    require(v == f, lambda: f"{what}: best_f={f!r} but a fresh objective "
            f"evaluates the returned parameters to {v!r}")
    # independent re-evaluation: simulate every training case with run_ode
    # (whose contract is the subject of C10) and combine the documented
    # figures of merit J with the *system's* gamma and state range
    import math

    from moptipyapps.dynamic_control.ode import j_from_ode, run_ode
    js = []
    for start in system.training_starting_states:
        ode = run_ode(np.array(start, dtype=float), system.equations,
                      controller.controller, x, cd, system.training_steps,
                      system.training_time)
        js.append(float(j_from_ode(ode, sd, system.state_dims_in_j,
                                   system.gamma)))
    if all(0.0 <= j <= 1e100 for j in js):
        want = math.expm1(math.fsum(math.log1p(j) for j in js) / len(js))
        if not 0.0 <= want <= 1e100:
            want = 1e200
    else:
        want = 1e200
    require(f == want or (want != 1e200 and abs(f - want)
                          <= 1e-9 * max(1.0, abs(want))),
            lambda: f"{what}: best_f={f!r} but exp(mean(log(J+1)))-1 over "
            f"the per-training-case figures of merit {js} (gamma="
            f"{system.gamma}) is {want!r}")
    return r1["last_imp"] > 1, [
        "family=dc", f"dc.setup={case['setup']}",
        f"dc.system={case['system']}", *extra_labels]


SUBS = {"bp": check_bp, "tsp": check_tsp, "ttp": check_ttp,
        "qap": check_qap, "instgen": check_instgen, "dc": check_dc}


def run(ctx: Ctx) -> None:
    ctx.given("bp", bp_cases(), check_bp, quick=360, thorough=16 * 400,
              shrink=False)
    ctx.given("tsp", tsp_cases(), check_tsp, quick=120, thorough=16 * 150,
              shrink=False)
    ctx.given("qap", qap_cases(), check_qap, quick=60, thorough=16 * 80,
              shrink=False)
    ctx.given("ttp", ttp_cases(), check_ttp, quick=90, thorough=16 * 100,
              shrink=False)
    ctx.given("instgen", instgen_cases(), check_instgen, quick=12,
              thorough=16 * 8, shrink=False)
    ctx.given("dc", dc_cases(), check_dc, quick=12, thorough=16 * 12,
              shrink=False)
