"""C20 - one-dimensional ordering instances and the swap distance."""
from __future__ import annotations

import itertools
from typing import Any

from hypothesis import strategies as st

from vf import gen_misc, oracle_order1d
from vf.core import Ctx, Violation, require, sut

META = {
    "rule": "instances: sequences of 1..12 (thorough 1..16) objects = pairs "
            "of small integers (many duplicates) or shuffled equidistant "
            "points (many rank ties) x 6 distance functions (Manhattan, "
            "first coordinate only = distinct objects at distance 0, "
            "generated symmetric table with zeros that need not be "
            "transitive, and float-scaled variants of the three) x flow "
            "power in {1,2,3,0.5,1.5} x horizon 1..len+2 x data passed as "
            "list/tuple/iterator x tags as str/tuple; a case is non-trivial "
            "when at least one object was merged into a representative AND "
            "some row has two neighbours with the same (tied) rank inside "
            "the horizon. swap_distance: 'swap_row' cases = one permutation "
            "p of length n against ALL n! permutations q (all ordered pairs "
            "(p, q) of equal length n <= 6 at the quick tier and n <= 7 at "
            "the thorough tier are enumerated, 533 417 resp. 25 935 017 "
            "pairs, int64 arrays), every pair counted as one evaluation under "
            "the labels swap_pairs_len=n; "
            "'swap_pair' cases = random / near / rotated / reversed pairs of "
            "length 1..40 in the storage types int8/int16/int64/uint8 and "
            "the type of the package's permutation space, non-trivial when "
            "the distance is at least 2",
    "assumptions": [
        "distance functions of the pool are exactly symmetric and are "
        "evaluated on the same argument order as the package evaluates "
        "them, so float distances are bit-identical in oracle and package",
        "average ranks are computed by vf/oracle_order1d.double_ranks with "
        "exact comparisons (ties = equal distance values)",
        "for permutations longer than 7 the expected swap distance is the "
        "length of an explicitly constructed and verified swap sequence "
        "whose optimality rests on the classical fact that a transposition "
        "changes the cycle count by one; for length <= 7 it is the breadth "
        "first search distance in the Cayley graph of all transpositions"],
    "shards": [4, 16],
    "technique": "property-based testing: Hypothesis-generated object "
                 "sequences and distance functions against an independent "
                 "first-wins merge / average-rank model; exhaustive "
                 "enumeration of all permutation pairs up to length 6 "
                 "(thorough: 7) against breadth-first-search distances",
    "level_text": "Generated-input search for the instance construction "
                  "(merge mapping, |i-j| distances, zero/equal/monotone "
                  "flows, horizon) plus complete enumeration of all ordered "
                  "permutation pairs of length <= 6 (quick) / <= 7 "
                  "(thorough) and random pairs up to length 40 for "
                  "swap_distance. Exhaustive only inside the sub-report of "
                  "the enumerated pair space; exploration otherwise.",
    "level_note": "Trusted: vf/oracle_order1d.py (merge model, ranks, BFS), "
                  "Hypothesis; rank ties are decided by exact equality of "
                  "the distance values.",
}


# ----------------------------------------------------------------------------
# instance construction
# ----------------------------------------------------------------------------

def _tags_fn(kind: str):
    if kind == "str":
        return ("pos",), (lambda o: f"p{o[0]}")
    return ("pos", "val"), (lambda o: (f"p{o[0]}", f"v{o[1]}x{o[2]}"))


def check_instance(ctx: Ctx, case: dict) -> None:
    from moptipyapps.order1d.instance import Instance
    objs = [(p, int(a), int(b)) for p, (a, b) in enumerate(case["objs"])]
    dist = gen_misc.make_distance(case["dist"])
    power, horizon = case["power"], int(case["horizon"])
    titles, tags_fn = _tags_fn(case["tags"])
    cont = case["container"]
    data: Any = list(objs)
    if cont == "tuple":
        data = tuple(objs)
    elif cont == "iter":
        data = iter(list(objs))
    inst = sut("from_sequence_and_distance",
               Instance.from_sequence_and_distance, data, dist, power,
               horizon, titles, tags_fn)

    # --- oracle: merge, representatives, ranks
    reps, owner = oracle_order1d.merge_first_wins(objs, dist)
    n = len(reps)
    require(inst.n == n, lambda: f"instance has n={inst.n}, but {n} objects "
            f"remain after merging zero-distance objects (reps at {reps})")
    tags = inst.tags
    require(len(tags) == len(objs),
            lambda: f"{len(tags)} tags for {len(objs)} original objects")
    seen: dict[int, int] = {}
    for tag, idx in tags:
        require(isinstance(tag, tuple) and len(tag) == len(titles)
                and all(isinstance(t, str) for t in tag),
                lambda: f"malformed tag {tag!r}")
        p = int(tag[0][1:])
        require(p not in seen, lambda: f"original object {p} mapped twice")
        require(type(idx) is int and 0 <= idx < n,
                lambda: f"object {p} mapped to invalid index {idx!r}")
        seen[p] = idx
        if case["tags"] == "tuple":
            require(tag[1] == f"v{objs[p][1]}x{objs[p][2]}",
                    lambda: f"tag {tag!r} does not belong to object {p}")
    require(sorted(seen) == list(range(len(objs))),
            "not every original object occurs in the tags")
    for p, idx in sorted(seen.items()):
        require(idx == owner[p], lambda: (
            f"object {p} {objs[p]} is mapped to representative {idx}, the "
            f"first representative at distance 0 is {owner[p]} "
            f"(representatives = original positions {reps})"))
        if reps[idx] != p:
            require(dist(objs[reps[idx]], objs[p]) <= 0, lambda: (
                f"object {p} mapped to a representative at distance > 0"))
    require(tuple(inst.tag_titles) == tuple(titles), "tag titles changed")

    # --- distances |i-j|
    dm = inst.distances
    fm = inst.flows
    require(dm.shape == (n, n) and fm.shape == (n, n),
            lambda: f"matrix shapes {dm.shape}, {fm.shape} for n={n}")
    for i in range(n):
        for j in range(n):
            require(int(dm[i, j]) == abs(i - j),
                    lambda: f"distances[{i}][{j}]={dm[i, j]} != |i-j|")

    # --- flows
    hz = min(n - 1, horizon)
    require(inst.horizon == hz and type(inst.horizon) is int,
            lambda: f"horizon attribute {inst.horizon!r}, expected {hz}")
    require(inst.flow_power == power, "flow_power attribute changed")
    dmat = oracle_order1d.rep_matrix(objs, reps, dist)
    tie_inside = False
    beyond = False
    for i in range(n):
        r2 = oracle_order1d.double_ranks(dmat[i], i)
        fl = [int(v) for v in fm[i]]
        require(fl[i] == 0, lambda: f"flows[{i}][{i}]={fl[i]} != 0")
        for j in range(n):
            if j == i:
                continue
            out = r2[j] > 2 * horizon
            beyond = beyond or out
            require(fl[j] >= 0, lambda: f"negative flow {fl[j]}")
            require((fl[j] == 0) == out, lambda: (
                f"flows[{i}][{j}]={fl[j]} but the average rank of {j} among "
                f"the neighbours of {i} is {r2[j] / 2} and the horizon is "
                f"{horizon} (row distances {dmat[i]})"))
            for k in range(j + 1, n):
                if k == i:
                    continue
                if r2[j] == r2[k]:
                    require(fl[j] == fl[k], lambda: (
                        f"row {i}: neighbours {j} and {k} have the same "
                        f"rank {r2[j] / 2} but flows {fl[j]} != {fl[k]}"))
                    if not out:
                        tie_inside = True
                elif r2[j] < r2[k]:
                    require(fl[j] >= fl[k], lambda: (
                        f"row {i}: {j} (rank {r2[j] / 2}) is nearer than {k} "
                        f"(rank {r2[k] / 2}) but flows {fl[j]} < {fl[k]}"))
                else:
                    require(fl[j] <= fl[k], lambda: (
                        f"row {i}: {k} (rank {r2[k] / 2}) is nearer than {j} "
                        f"(rank {r2[j] / 2}) but flows {fl[k]} < {fl[j]}"))
    merged = len(objs) - n
    labels = [f"dist={case['dist']['kind']}", f"power={power}",
              "n=1" if n == 1 else ("n=2..4" if n <= 4 else "n>=5")]
    if merged:
        labels.append("merged")
    if tie_inside:
        labels.append("tie_inside_horizon")
    if beyond:
        labels.append("some_beyond_horizon")
    if horizon >= n:
        labels.append("horizon>=n")
    # non-transitive zero distances: an object at distance 0 from a later
    # representative it was not merged into
    if any(owner[p] != k and dist(objs[rp], objs[p]) <= 0
           for p in range(len(objs)) for k, rp in enumerate(reps)
           if rp != p and owner[p] != k):
        labels.append("zero_to_other_rep")
    ctx.rec.case(case, nontrivial=bool(merged and tie_inside), labels=labels)


# ----------------------------------------------------------------------------
# swap distance
# ----------------------------------------------------------------------------

_BFS: dict[int, dict] = {}
_PERMS: dict[int, tuple] = {}


def _bfs(n: int) -> dict:
    if n not in _BFS:
        _BFS[n] = oracle_order1d.bfs_transposition_distances(n)
    return _BFS[n]


def _perms(n: int) -> tuple:
    """(tuples, int64 arrays) of all permutations of 0..n-1."""
    if n not in _PERMS:
        import numpy as np
        tups = list(itertools.permutations(range(n)))
        _PERMS[n] = (tups, [np.array(t, dtype=np.int64) for t in tups])
    return _PERMS[n]


def check_swap_row(ctx: Ctx, case: dict) -> None:
    """One permutation ``p`` against every permutation ``q`` of its length."""
    import numpy as np
    from moptipyapps.order1d.distances import swap_distance
    n = int(case["n"])
    p = [int(v) for v in case["p"]]
    require(sorted(p) == list(range(n)), "harness: p is not a permutation")
    table = _bfs(n)
    tups, arrs = _perms(n)
    pa = np.array(p, dtype=np.int64)
    where = [0] * n
    for i, v in enumerate(p):
        where[v] = i
    tp = tuple(p)
    for q, qa in zip(tups, arrs):
        try:
            got = swap_distance(pa, qa)
        except Exception as exc:  # noqa: BLE001
            raise Violation(f"swap_distance({p}, {list(q)}) raised "
                            f"{type(exc).__name__}: {exc}") from exc
        want = table[tuple([where[v] for v in q])]
        if got != want or (got == 0) != (q == tp):
            raise Violation(
                f"swap_distance({p}, {list(q)}) = {got!r}, but the minimum "
                f"number of transpositions is {want}")
    require(pa.tolist() == p, "swap_distance modified its argument")
    # every ordered pair (p, q) is one evaluated case
    ctx.rec.bulk(len(tups), f"swap_pairs_len={n}")
    ctx.rec.label("swap_rows")


def check_swap_pair(ctx: Ctx, case: dict) -> None:
    import numpy as np
    from moptipyapps.order1d.distances import swap_distance
    p = [int(v) for v in case["p"]]
    q = [int(v) for v in case["q"]]
    n = len(p)
    dt = case["dtype"]
    if dt == "space":
        # storage type of moptipy's Permutations(range(n)) (needs n >= 2)
        from moptipy.utils.nputils import int_range_to_dtype
        dtype = int_range_to_dtype(0, max(1, n - 1))
    else:
        dtype = np.dtype(dt)
    pa = np.array(p, dtype=dtype)
    qa = np.array(q, dtype=dtype)
    got = sut("swap_distance", swap_distance, pa, qa)
    back = sut("swap_distance", swap_distance, qa, pa)
    if n <= 7:
        want = _bfs(n)[oracle_order1d.relative(p, q)]
        how = "bfs"
    else:
        want = oracle_order1d.sort_by_swaps(p, q)
        how = "swap_sequence"
    require(got == want, lambda: f"swap_distance({p}, {q}) = {got!r}, "
            f"minimum number of transpositions is {want} ({how})")
    require(back == got, lambda: f"not symmetric: d(p,q)={got}, "
            f"d(q,p)={back} for p={p}, q={q}")
    require((got == 0) == (p == q), lambda: f"distance {got} for "
            f"{'equal' if p == q else 'different'} permutations")
    require(0 <= got <= max(0, n - 1), lambda: f"distance {got} outside "
            f"0..{n - 1}")
    require(pa.tolist() == p and qa.tolist() == q, "arguments modified")
    ctx.rec.case(case, nontrivial=got >= 2, labels=[
        f"pair_dtype={pa.dtype.name}", f"pair_oracle={how}",
        "pair_d=0" if got == 0 else ("pair_d=1" if got == 1 else "pair_d>=2")])


SUBS = {"instance": check_instance, "swap_row": check_swap_row,
        "swap_pair": check_swap_pair}


def _rows(max_n: int):
    for n in range(1, max_n + 1):
        for p in itertools.permutations(range(n)):
            yield {"n": n, "p": list(p)}


def run(ctx: Ctx) -> None:
    ctx.given("instance",
              gen_misc.order1d_cases(max_len=ctx.pick(12, 16)),
              check_instance, quick=3000, thorough=16 * 8000)
    ctx.given("swap_pair", gen_misc.perm_pairs(max_len=40),
              check_swap_pair, quick=1500, thorough=16 * 4000)
    max_n = ctx.pick(6, 7)
    rows = ctx.each("swap_row", ctx.my_share(_rows(max_n)), check_swap_row)
    if not ctx.warm:
        pairs = sum(v for k, v in ctx.rec.labels.items()
                    if k.startswith("swap_pairs_len="))
        ok = not any(v["sub"] == "swap_row" for v in ctx.rec.violations)
        ctx.rec.subreport(
            "exhaustive_swap_distance_all_ordered_pairs",
            exhaustive=ok, lengths=f"1..{max_n}", rows=rows, pairs=pairs,
            note="every ordered pair (p, q) of permutations of equal length "
                 "in the stated range; the shards split the p's round-robin")
