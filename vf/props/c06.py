"""C06 - the TSP (1+1) EA / FEA hand true tour lengths to the process."""
from __future__ import annotations

from typing import Any

from hypothesis import strategies as st

from vf import gen_mat
from vf import oracle_tsp as o
from vf.core import Ctx, require, sut
from vf.props.c05 import build_instance

META = {
    "rule": "symmetric matrices by construction, 4 <= n <= 14 (FEA: sum of "
            "row maxima <= 2*10^6 so that the frequency table is affordable; "
            "EA: all magnitude classes up to 10^12 incl. storage-type edges). "
            "kernel: one call of rev_if_not_worse / rev_if_h_not_worse on a "
            "drawn tour with (i, j) from the classes {i=0, j=n-2, j=i+1, "
            "(0,1), (n-3,n-2), any} over exactly the pairs the algorithms "
            "can draw (0 <= i < j <= n-2, not (0, n-2)), FEA table pre-filled "
            "with drawn counts at the two addressed lengths and elsewhere; "
            "non-trivial = candidate length differs from the current one. "
            "run: solve() against a stub process (numpy Generator seeded "
            "with a drawn integer, FE budget 1..400), every register(x, y) "
            "checked; non-trivial = the run accepted at least one move with "
            "i = 0 and one with j = n-2 (moves inferred from consecutive "
            "registered tours); long_run: the same with 3000..9000 evaluations on "
            "4..7 cities. Part fea@bc (worker with NUMBA_BOUNDSCHECK=1): "
            "FEA runs on instances whose upper tour-length bound is attained "
            "(all distances equal, all but one, two clusters) plus ordinary "
            "runs - an index outside the frequency table, which is local to "
            "solve(), raises IndexError there; distinct = distinct cases",
    "assumptions": [
        "only symmetric instances with n >= 4 (for n <= 3 the algorithms "
        "skip every move, DESIGN.md section 5 O1)",
        "the stub process offers get_random, create, evaluate, register, "
        "should_terminate - what the two solve() methods use",
        "algorithm-level FEA table accesses are local to solve(): they are "
        "observed in the bounds-checked part fea@bc (and again in C13), at "
        "kernel level through a table owned by the check",
        "reference lengths are Python big-int cyclic sums (vf/oracle_tsp.py)"],
    "shards": [4, 16],
    "parts": ["main", "fea@bc"],
    "technique": "property-based testing: Hypothesis-generated instances, "
                 "tours, moves and seeded runs; every (tour, length) pair "
                 "handed to a stub process is re-computed from scratch",
    "level_text": "randomised exploration of kernel calls and of complete "
                  "runs up to 400 evaluations on up to 14 cities",
    "level_note": "trusted: numpy Generator, moptipy Permutations space; "
                  "moves the algorithms cannot draw (j = n-1) are outside "
                  "the domain",
}

FEA_MAX_UPPER = 2_000_000
PAIR_CLASSES = ("i0", "jn2", "adjacent", "first_adj", "last_adj", "any",
                "any")


def drawable_pairs(n: int) -> list[tuple[int, int]]:
    """The (i, j) the solve loops hand to the kernels."""
    return [(i, j) for i in range(n - 1) for j in range(i + 1, n - 1)
            if not (i == 0 and j == n - 2)]


@st.composite
def sym_matrix(draw: Any, algo: str, max_n: int = 14) -> dict:
    cap = None
    if algo == "fea":  # size of the frequency table; big tables are costly
        cap = draw(st.sampled_from([1000, 70000, 70000, FEA_MAX_UPPER]))
    return draw(gen_mat.tsp_matrix(
        min_n=4, max_n=max_n, kinds=("sym",), max_upper=cap))


@st.composite
def kernel_cases(draw: Any) -> dict:
    algo = draw(st.sampled_from(["ea", "fea"]))
    mat = draw(sym_matrix(algo))
    n, m = mat["n"], mat["m"]
    x = list(draw(gen_mat.perm(n)))
    pairs = drawable_pairs(n)
    pc = draw(st.sampled_from(PAIR_CLASSES))
    sel = {"i0": [p for p in pairs if p[0] == 0],
           "jn2": [p for p in pairs if p[1] == n - 2],
           "adjacent": [p for p in pairs if p[1] == p[0] + 1],
           "first_adj": [(0, 1)], "last_adj": [(n - 3, n - 2)],
           "any": pairs}[pc]
    i, j = draw(st.sampled_from(sel))
    case = {"algo": algo, "mat": mat, "x": x, "i": i, "j": j, "pc": pc}
    if algo == "fea":
        y = o.cyclic_length(m, x)
        y2 = o.cyclic_length(m, o.reversed_segment(x, i, j))
        ub = o.row_bounds(m)[1]
        h = {y: draw(st.integers(0, 3))}
        if y2 != y:
            h[y2] = draw(st.integers(0, 3))
        for _ in range(draw(st.integers(0, 3))):
            k = draw(st.sampled_from([0, ub, y + 1, y2 - 1, y2 + 1,
                                      draw(st.integers(0, ub))]))
            if 0 <= k <= ub and k not in h:
                h[k] = draw(st.integers(1, 5))
        case["h"] = [[k, v] for k, v in sorted(h.items())]
    return case


@st.composite
def run_cases(draw: Any) -> dict:
    algo = draw(st.sampled_from(["ea", "fea"]))
    return {"algo": algo, "mat": draw(sym_matrix(algo)),
            "seed": draw(st.integers(0, 2 ** 63 - 1)),
            "budget": draw(st.one_of(st.integers(1, 400),
                                     st.integers(1, 20),
                                     st.integers(100, 400),
                                     st.integers(100, 400)))}


def _space_tour(x: list[int]) -> Any:
    from moptipy.spaces.permutations import Permutations
    arr = Permutations.standard(len(x)).create()
    arr[:] = x
    return arr


# ----------------------------------------------------------------------------
# kernel level
# ----------------------------------------------------------------------------

def check_kernel(ctx: Ctx, case: dict) -> None:
    import numpy as np
    mat, x0, i, j = case["mat"], case["x"], case["i"], case["j"]
    n, m = mat["n"], mat["m"]
    algo = case["algo"]
    inst = sut("tsp Instance()", build_instance, mat)
    ub = o.row_bounds(m)[1]
    require(inst.tour_length_upper_bound == ub,
            f"upper bound {inst.tour_length_upper_bound} != {ub}")
    y = o.cyclic_length(m, x0)
    cand = o.reversed_segment(x0, i, j)
    y2 = o.cyclic_length(m, cand)
    x = _space_tour(x0)
    if algo == "ea":
        from moptipyapps.tsp.ea1p1_revn import rev_if_not_worse
        ret = sut("rev_if_not_worse", rev_if_not_worse, np.int64(i),
                  np.int64(j), n, inst, x, y)
        accept = y2 <= y
    else:
        from moptipyapps.tsp.fea1p1_revn import rev_if_h_not_worse
        require(0 <= y <= ub and 0 <= y2 <= ub,
                lambda: f"lengths {y}, {y2} outside the table 0..{ub}")
        h = np.zeros(ub + 1, dtype=np.int64)
        before = {int(k): int(v) for k, v in case["h"] if v != 0}
        for k, v in before.items():
            h[k] = v
        ret = sut("rev_if_h_not_worse", rev_if_h_not_worse, np.int64(i),
                  np.int64(j), n, inst, h, x, y)
        want = {y: 2} if y == y2 else {y: 1, y2: 1}
        now = {int(k): int(h[k]) for k in np.flatnonzero(h)}
        got = {k: now.get(k, 0) - before.get(k, 0)
               for k in sorted(set(now) | set(before))
               if now.get(k, 0) != before.get(k, 0)}
        require(got == want, lambda: f"table changed by {got}, expected "
                f"{want} (y={y}, candidate={y2}, table size {ub + 1})")
        accept = int(h[y2]) <= int(h[y])
    after = [int(v) for v in x]
    require(o.is_permutation(after, n),
            lambda: f"tour is no permutation after the call: {after}")
    require(isinstance(ret, (int, np.integer)) and not isinstance(ret, bool),
            lambda: f"kernel returned {type(ret)}")
    if accept:
        require(after == cand, lambda: f"move ({i},{j}) on {x0} must be "
                f"accepted (y={y}, candidate={y2}) and give {cand}, got "
                f"{after}")
        require(int(ret) == y2, lambda: f"accepted move ({i},{j}) on {x0}: "
                f"returned {ret}, true new length {y2} (old {y})")
    else:
        require(after == x0, lambda: f"move ({i},{j}) on {x0} must be "
                f"rejected (y={y}, candidate={y2}) but the tour became "
                f"{after}")
        require(int(ret) == y, lambda: f"rejected move: returned {ret}, "
                f"length is {y}")
    require(int(ret) == o.cyclic_length(m, after),
            "returned length is not the length of the resulting tour")
    labels = [f"kernel:{algo}", f"kernel:pair={case['pc']}",
              f"kernel:{algo}:" + ("accepted" if accept else "rejected"),
              "kernel:delta" + ("<0" if y2 < y else ("=0" if y2 == y
                                                       else ">0")),
              f"dtype={inst.dtype.name}"]
    if i == 0:
        labels.append("kernel:i=0")
    if j == n - 2:
        labels.append("kernel:j=n-2")
    if algo == "fea" and accept and y2 > y:
        labels.append("kernel:fea:accepted_worse")
    ctx.rec.case(case, nontrivial=(y2 != y), labels=labels)


# ----------------------------------------------------------------------------
# algorithm level: the stub process
# ----------------------------------------------------------------------------

class StubProcess:
    """What TSPEA1p1revn.solve / TSPFEA1p1revn.solve use of a Process."""

    def __init__(self, mat: dict, inst: Any, algo: str, seed: int,
                 budget: int) -> None:
        import numpy as np
        from moptipy.spaces.permutations import Permutations
        from moptipyapps.tsp.tour_length import TourLength
        self.n = mat["n"]
        self.m = mat["m"]
        self.algo = algo
        self.ub = o.row_bounds(self.m)[1]
        self.budget = budget
        self.rng = np.random.default_rng(seed)
        self.space = Permutations.standard(self.n)
        self.objective = TourLength(inst)
        self.fes = 0
        self.polls = 0
        self.stalled = False
        self.cur_x: list[int] | None = None
        self.cur_y: int | None = None
        self.registered = 0
        self.accepted = 0
        self.acc_i0 = 0
        self.acc_jn2 = 0
        self.worse = 0

    # -- the Process API used by the algorithms -----------------------------
    def get_random(self) -> Any:
        return self.rng

    def create(self) -> Any:
        return self.space.create()

    def should_terminate(self) -> bool:
        self.polls += 1
        if self.polls > 500 * self.budget + 5000:
            self.stalled = True  # watchdog: never a violation
            return True
        return self.fes >= self.budget

    def evaluate(self, x: Any) -> Any:
        self.fes += 1
        xs = [int(v) for v in x]
        require(o.is_permutation(xs, self.n),
                lambda: f"start tour is no permutation: {xs}")
        y = sut("TourLength.evaluate", self.objective.evaluate, x)
        want = o.cyclic_length(self.m, xs)
        require(y == want, lambda: f"evaluate({xs}) = {y}, cyclic sum {want}")
        self.cur_x, self.cur_y = xs, want
        return y

    def register(self, x: Any, y: Any) -> None:
        import numpy as np
        self.fes += 1
        self.registered += 1
        k = self.registered
        xs = [int(v) for v in x]
        require(o.is_permutation(xs, self.n),
                lambda: f"register #{k}: no permutation: {xs}")
        require(isinstance(y, (int, np.integer)) and not isinstance(y, bool),
                lambda: f"register #{k}: y has type {type(y)}")
        want = o.cyclic_length(self.m, xs)
        require(int(y) == want, lambda: f"register #{k}: y={y} but the tour "
                f"{xs} has length {want} (previous tour {self.cur_x}, "
                f"length {self.cur_y})")
        require(self.cur_x is not None, "register before evaluate")
        if self.algo == "ea":
            require(want <= self.cur_y, lambda: f"register #{k}: the EA moved "
                    f"from length {self.cur_y} to {want}")
        else:
            require(0 <= want <= self.ub, lambda: f"register #{k}: length "
                    f"{want} outside the frequency table 0..{self.ub}")
        span = o.changed_span(self.cur_x, xs)
        if span is not None:
            a, b = span
            require(xs == o.reversed_segment(self.cur_x, a, b),
                    lambda: f"register #{k}: {self.cur_x} -> {xs} is not the "
                    f"reversal of one segment")
            require(b <= self.n - 2 and not (a == 0 and b == self.n - 2),
                    lambda: f"register #{k}: reversal of {a}..{b} is not a "
                    f"move the algorithm draws")
            self.accepted += 1
            self.acc_i0 += a == 0
            self.acc_jn2 += b == self.n - 2
            self.worse += want > self.cur_y
        self.cur_x, self.cur_y = xs, want


def check_run(ctx: Ctx, case: dict) -> None:
    mat, algo = case["mat"], case["algo"]
    buffers: list = []
    inst = sut("tsp Instance()", build_instance, mat, 0, None, buffers)
    require(bool(inst.is_symmetric), "symmetric matrix not flagged symmetric")
    buffers[0].fill(0)  # the caller re-uses its buffer (documented: copied)
    if algo == "ea":
        from moptipyapps.tsp.ea1p1_revn import TSPEA1p1revn
        alg = TSPEA1p1revn(inst)
    else:
        from moptipyapps.tsp.fea1p1_revn import TSPFEA1p1revn
        alg = TSPFEA1p1revn(inst)
    proc = StubProcess(mat, inst, algo, case["seed"], case["budget"])
    sut(f"{algo}.solve", alg.solve, proc)
    if proc.stalled:
        ctx.rec.inconc("run made no progress within 500 polls per FE")
        return
    require(proc.fes >= 1, "solve() never evaluated a tour")
    labels = [f"run:{algo}", f"dtype={inst.dtype.name}",
              "run:budget" + ("<=40" if case["budget"] <= 40 else ">40"),
              f"run:{algo}:accepted" + ("=0" if proc.accepted == 0 else
                                        ("<=10" if proc.accepted <= 10
                                         else ">10"))]
    if proc.acc_i0:
        labels.append("run:accepted_i=0")
    if proc.acc_jn2:
        labels.append("run:accepted_j=n-2")
    if proc.worse:
        labels.append("run:fea_accepted_worse")
    ctx.rec.label("run:registered_pairs", proc.registered)
    ctx.rec.label("run:accepted_moves", proc.accepted)
    ctx.rec.case(case, nontrivial=(proc.acc_i0 > 0 and proc.acc_jn2 > 0),
                 labels=labels)


@st.composite
def fea_table_cases(draw: Any) -> dict:
    """FEA runs on instances whose upper tour-length bound is attained by
    real tours (all distances equal, all equal but one edge, two clusters):
    the frequency table is then addressed at its last entry. Executed in the
    bounds-checked part, where an index outside the table (which is local to
    solve()) raises IndexError."""
    n = draw(st.integers(4, 10))
    v = draw(st.sampled_from([1, 2, 7, 100, 1000]))
    kind = draw(st.sampled_from(["const", "one_shorter", "one_longer",
                                 "clusters"]))
    m = [[0 if i == j else v for j in range(n)] for i in range(n)]
    if kind == "one_shorter" and v > 1:
        a, b = draw(st.integers(0, n - 1)), draw(st.integers(0, n - 1))
        if a != b:
            m[a][b] = m[b][a] = v - 1
    elif kind == "one_longer":
        a, b = draw(st.integers(0, n - 1)), draw(st.integers(0, n - 1))
        if a != b:
            m[a][b] = m[b][a] = v + draw(st.integers(1, 3))
    elif kind == "clusters":
        half = n // 2
        for i in range(n):
            for j in range(n):
                if i != j and (i < half) == (j < half):
                    m[i][j] = max(1, v // 2)
    return {"algo": "fea",
            "mat": {"n": n, "m": m, "kind": "sym", "cls": "ub_" + kind,
                    "in_dtype": "int64"},
            "seed": draw(st.integers(0, 2 ** 63 - 1)),
            "budget": draw(st.integers(20, 400))}


@st.composite
def long_run_cases(draw: Any) -> dict:
    """Long histories on few cities: thousands of moves (state that is
    refreshed only every few thousand iterations, rare index pairs)."""
    algo = draw(st.sampled_from(["ea", "fea"]))
    return {"algo": algo, "mat": draw(sym_matrix(algo, max_n=7)),
            "seed": draw(st.integers(0, 2 ** 63 - 1)),
            "budget": draw(st.integers(3000, 9000))}


SUBS = {"kernel": check_kernel, "run": check_run, "fea_table": check_run,
        "long_run": check_run}


def run(ctx: Ctx) -> None:
    if ctx.boundscheck:  # part "fea@bc": NUMBA_BOUNDSCHECK=1
        ctx.given("fea_table", fea_table_cases(), check_run, quick=120,
                  thorough=16 * 600)
        ctx.given("run", run_cases(), check_run, quick=80,
                  thorough=16 * 300)
        return
    ctx.given("kernel", kernel_cases(), check_kernel, quick=3000,
              thorough=16 * 12000)
    ctx.given("run", run_cases(), check_run, quick=300, thorough=16 * 2000)
    ctx.given("long_run", long_run_cases(), check_run, quick=16,
              thorough=16 * 60, shrink=False)
