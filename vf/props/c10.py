"""C10 - controlled-system simulation terminates, bounded, self-consistent."""
from __future__ import annotations

import math
import signal
import warnings
from contextlib import contextmanager
from typing import Any, Iterator

import numpy as np

from hypothesis import strategies as st

from vf import gen_dc, oracle_dc
from vf.core import Ctx, Violation, canon, require, sut

META = {
    "rule": "one case = one program (equations, controller) with parameter "
            "vector, starting state (dims 2..6, magnitudes 1e-3..10 or 0), "
            "step count 10..200 and time limit 0.1..20: (a) linear systems "
            "ds/dt = A s + B u with block-diagonal A (real and "
            "rotation-decay blocks), u = 0 | c | c - K s; (b) the three "
            "bundled systems x every bundled controller blueprint of their "
            "dimension with parameters from [-32,32]^n; (c) either of them "
            "with a fault in the controller: NaN / +-inf / 1e50 / 1e300 / "
            "+-1e10 / 5e10 / -1e11 / +-9.9e9 always, after time p, when "
            "max|s| > p, or an added exp(p t) (on the bundled systems only "
            "values outside (-1e10,1e10) and no exp growth: huge admissible "
            "forcing makes their cubic damping arbitrarily stiff); (d) the "
            "same faults in the differential, including NaN at t=0; plus "
            "synthetic result "
            "arrays for the figure of merit. A case is non-trivial when the "
            "simulation needed a retry (final time < requested) or ended in "
            "the failure row; distinct = distinct programs. multi / describe: "
            "multi_run_ode with 0..3 test and training states, different "
            "step counts / time limits per group, 1..2 collectors and 1..2 "
            "control values",
    "assumptions": [
        "termination is only observed: every run_ode call runs under a "
        "deterministic work budget (300 000 controller invocations; "
        "discontinuous or high-gain controllers make RK45 chatter with "
        "steps of 1e-12 for minutes) and a process-level watchdog "
        "(signal.alarm, 60 s); exceeding either is counted as inconclusive "
        "and is never a violation - with two exceptions: a fault-free "
        "linear program whose analytic solution is smooth and below 1e6 "
        "needs a few hundred RK45 steps, exceeding the work budget there "
        "is reported; and the "
        "sub-check nan_at_start (differential NaN at t=0, finding F12) "
        "reports a violation when run_ode does not return within 20 s, "
        "because the fixed code returns for exactly this input class "
        "without integrating at all",
        "generated controllers and equations are pure functions of (state, "
        "time, parameters); the row-wise recomputation of the control "
        "entries relies on it",
        "analytic agreement, family (a) without faults and with "
        "max Re(eigenvalue of the closed loop) * max_time <= 5 (at most "
        "e^5-fold growth; errors of an explicit integrator are amplified "
        "without bound otherwise): every simulated state at time t is "
        "within 8e-3 * (1 + rho*t) * (M(t) + 1e-3) of the closed-form "
        "solution, rho = spectral radius of the closed-loop matrix, M(t) = "
        "largest |component| of the analytic solution on the rows up to t. "
        "RK45 runs with its default rtol=1e-3/atol=1e-6, so the error grows "
        "with the number of oscillations/time constants rho*t; calibrated "
        "on the unchanged tree: over 62 206 generated programs the largest "
        "value of error / ((1 + rho*t) * (M(t) + 1e-3)) was 7.65e-4; the "
        "tolerance is 10x that",
        "a program that is not OK at t=0 (control or differential outside "
        "(-1e10,1e10) or NaN) must give the failure row; a fault-free "
        "linear program whose analytic solution and control stay below 1e8 "
        "must give all rows up to exactly the requested time",
        "figure of merit: documented sum recomputed with math.fsum, relative "
        "tolerance 1e-12; differentials: finite-difference quotient, "
        "relative tolerance 1e-12",
        "Lorenz with extreme cubic parameters is expensive: bundled programs "
        "use at most 120 steps and a time limit of at most 5"],
    "shards": [4, 16],
    "technique": "property-based testing: Hypothesis-generated programs "
                 "(equations, controller) incl. diverging and NaN/inf "
                 "producing ones against a result-shape/consistency oracle, "
                 "closed-form solutions of linear systems and an fsum "
                 "figure-of-merit reference",
    "level_text": "every generated simulation returned and its result "
                  "satisfied the row/failure-row contract, the recomputed "
                  "controls, the figure-of-merit definition and (linear "
                  "systems) the analytic solution",
    "level_note": "termination is observed per case under a watchdog, not "
                  "proven; analytic agreement within the stated tolerance",
}

WATCHDOG_S = 60
STRICT_WORK = 20_000  # nan_at_start: deterministic bound instead of a clock
WORK_LIMIT = 300_000  # controller invocations per simulation
ANALYTIC_C = 8e-3      # 10 x the largest normalised deviation observed
ANALYTIC_FLOOR = 1e-3  # magnitude floor of the scale (RK45 atol regime)
ANALYTIC_GROWTH = 5.0  # compared when max Re(eig) * max_time <= this


class _Alarm(BaseException):
    """Raised by the watchdog's signal handler (private)."""


@contextmanager
def watchdog(seconds: int) -> Iterator[None]:
    def handler(_signum: int, _frame: Any) -> None:
        raise _Alarm

    old = signal.signal(signal.SIGALRM, handler)
    signal.alarm(seconds)
    try:
        yield
    finally:
        try:
            signal.alarm(0)
        finally:
            signal.signal(signal.SIGALRM, old)


def _run(case: dict, seconds: int, work_limit: Any = WORK_LIMIT) \
        -> tuple[Any, dict]:
    """Build the program of ``case`` and run it. Returns (result, info);
    raises _Alarm on a watchdog hit and gen_dc.WorkLimit when the controller
    was invoked more than ``work_limit`` times."""
    from moptipyapps.dynamic_control.ode import run_ode
    eq = gen_dc.build_equations(case["eq"])
    counter = gen_dc.WorkCounter(work_limit)
    ctrl, params, cdim = gen_dc.build_controller(case["ctrl"], counter)
    start = np.array(case["start"], dtype=float)
    b_start, b_params = start.tobytes(), params.tobytes()
    with warnings.catch_warnings():
        warnings.simplefilter("ignore")
        with np.errstate(all="ignore"), watchdog(seconds):
            try:
                res = run_ode(start, eq, ctrl, params, cdim,
                              int(case["steps"]), float(case["max_time"]))
            except (_Alarm, gen_dc.WorkLimit):
                raise
            except Exception as exc:  # noqa: BLE001
                raise Violation(f"run_ode raised {type(exc).__name__}: "
                                f"{exc}") from exc
            finally:
                counter.limit = None
    require(start.tobytes() == b_start, "run_ode modified the starting state")
    require(params.tobytes() == b_params, "run_ode modified the parameters")
    return res, {"eq": eq, "ctrl": ctrl, "params": params, "cdim": cdim,
                 "start": start, "work": counter.n}


def _bad_at_start(case: dict, info: dict) -> bool:
    """Control or differential not OK at (start, t=0)?"""
    n = len(case["start"])
    c = np.zeros(info["cdim"])
    with np.errstate(all="ignore"):
        info["ctrl"](info["start"].copy(), 0.0, info["params"].copy(), c)
        if not all(gen_dc.value_is_ok(float(v)) for v in c):
            return True
        out = np.zeros(n)
        info["eq"](info["start"].copy(), 0.0, c, out)
    return not all(gen_dc.value_is_ok(float(v)) for v in out)


def _check_shape(case: dict, res: Any, info: dict) -> str:
    """The row / failure-row contract. Returns the outcome label."""
    n, cdim = len(case["start"]), info["cdim"]
    steps, max_time = int(case["steps"]), float(case["max_time"])
    require(isinstance(res, np.ndarray) and res.ndim == 2
            and res.dtype == np.float64,
            lambda: f"result is not a 2-D float array: {type(res)} "
            f"{getattr(res, 'shape', None)} {getattr(res, 'dtype', None)}")
    require(res.shape[1] == n + cdim + 1,
            f"{res.shape[1]} columns for {n} state + {cdim} control + time")
    if len(res) == 1:
        row = res[0]
        want = np.array([*case["start"], *([1e100] * cdim), 0.0])
        require(want.tobytes() == row.tobytes(),
                lambda: f"single row is not the failure row (start, 1e100.., "
                f"0): {row.tolist()}")
        return "failed"
    require(len(res) == steps, f"{len(res)} rows, neither the requested "
            f"{steps} nor a single failure row")
    t = res[:, -1]
    require(bool(np.isfinite(res).all()), "result contains non-finite values")
    require(float(t[0]) == 0.0, f"first time is {t[0]!r}, not 0")
    require(bool((np.diff(t) > 0).all()), "times are not strictly increasing")
    require(float(t[-1]) <= max_time, f"last time {t[-1]!r} exceeds the "
            f"time limit {max_time!r}")
    require(res[0, :n].tobytes() == info["start"].tobytes(),
            lambda: f"first row state {res[0, :n].tolist()} is not the "
            f"starting state {case['start']}")
    worst = float(np.abs(res).max())
    require(worst < 1e10, f"value of magnitude {worst!r} in the result "
            "(limit 1e10)")
    # every control entry = controller output for that row's state and time
    out = np.empty(cdim)
    with np.errstate(all="ignore"):
        for i in range(len(res)):
            out.fill(-7.0)
            info["ctrl"](res[i, :n].copy(), float(t[i]),
                         info["params"].copy(), out)
            require(out.tobytes() == res[i, n:-1].tobytes(), lambda i=i: (
                f"row {i}: control {res[i, n:-1].tolist()} differs from the "
                f"controller output {out.tolist()} for state "
                f"{res[i, :n].tolist()} at time {float(t[i])!r}"))
    return "full" if float(t[-1]) == max_time else "shortened"


def _check_derived(case: dict, res: Any) -> None:
    """j_from_ode, t_from_ode, diff_from_ode on a result array."""
    from moptipyapps.dynamic_control.ode import (
        diff_from_ode,
        j_from_ode,
        t_from_ode,
    )
    n = int(case.get("n", len(case.get("start", []))))
    use, gamma = int(case["j"]["use"]), float(case["j"]["gamma"])
    rows = res.tolist()
    before = res.tobytes()
    try:
        j = j_from_ode(res, n, use, gamma)
        tt = t_from_ode(res)
        sc, df = diff_from_ode(res, n)
    except Exception as exc:  # noqa: BLE001
        raise Violation(f"j/t/diff_from_ode raised {type(exc).__name__}: "
                        f"{exc} on {rows[:4]}") from exc
    require(res.tobytes() == before, "j/t/diff_from_ode modified the result")
    want = oracle_dc.j_reference(rows, n, use, gamma)
    require(isinstance(j, float) and math.isfinite(j) and j >= 0.0,
            f"figure of merit {j!r} is not a finite non-negative float")
    require(abs(j - want) <= 1e-12 * abs(want), lambda: (
        f"j_from_ode(state_dim={n}, use_state_dims={use}, gamma={gamma}) = "
        f"{j!r}, the documented sum is {want!r}; rows {rows[:6]}"))
    require(float(tt) == rows[-1][-1], f"t_from_ode {tt!r} != last time "
            f"{rows[-1][-1]!r}")
    want_sc, want_df = oracle_dc.diff_reference(rows, n)
    require(np.shape(sc) == (len(rows) - 1, len(rows[0]) - 1)
            and np.shape(df) == (len(rows) - 1, n),
            f"diff_from_ode shapes {np.shape(sc)} {np.shape(df)}")
    if len(rows) > 1:
        require(np.asarray(sc).tolist() == want_sc,
                "diff_from_ode: first matrix is not state+control of all "
                "rows but the last")
        got_df = np.asarray(df).tolist()
        for i, (g_row, w_row) in enumerate(zip(got_df, want_df)):
            for g, w in zip(g_row, w_row):
                require(g == w or abs(g - w) <= 1e-12 * abs(w), lambda: (
                    f"diff_from_ode row {i}: {g_row} but the difference "
                    f"quotient is {w_row}"))


def _closed_loop(case: dict) -> tuple[np.ndarray, np.ndarray]:
    a = oracle_dc.linear_blocks_matrix(case["eq"]["blocks"])
    b = np.array(case["eq"]["b"], dtype=float)
    k = np.array(case["ctrl"]["K"], dtype=float)
    c = np.array(case["ctrl"]["c"], dtype=float)
    return a - b @ k, b @ c


def analytic_states(case: dict, times: list[float]) -> list[Any]:
    """Closed-form states of a fault-free linear program at ``times``."""
    m, g = _closed_loop(case)
    k = np.array(case["ctrl"]["K"], dtype=float)
    simple = not k.any() and len(case["ctrl"]["c"]) == 1
    out = []
    for t in times:
        with np.errstate(all="ignore"):
            s = oracle_dc.linear_solution(m, g, case["start"], t)
        if simple and np.isfinite(s).all():
            cf = oracle_dc.blocks_closed_form(
                case["eq"]["blocks"], [r[0] for r in case["eq"]["b"]],
                case["ctrl"]["c"][0], case["start"], t)
            if cf is None:
                out.append(s)
                continue
            cf = np.array(cf)
            if not np.allclose(cf, s, rtol=1e-8,
                               atol=1e-9 * (1 + float(np.abs(cf).max()))):
                raise RuntimeError(  # oracle self-check: harness error
                    f"closed form {cf} != matrix exponential {s} at t={t}")
            s = cf
        out.append(s)
    return out


def _spectrum(case: dict) -> tuple[float, float]:
    """(spectral radius, largest real part) of the closed-loop matrix."""
    m, _g = _closed_loop(case)
    ev = np.linalg.eigvals(m)
    return float(np.abs(ev).max()), float(ev.real.max())


def _analytic_deviation(case: dict, res: Any) -> float:
    """Compare every row with the closed-form solution. Returns the largest
    share of the tolerance that was used."""
    n = len(case["start"])
    rho, _re = _spectrum(case)
    times = [float(v) for v in res[:, -1]]
    exact = analytic_states(case, times)
    run_max = 0.0
    worst = 0.0
    for i, s in enumerate(exact):
        if not np.isfinite(s).all():
            break
        run_max = max(run_max, float(np.abs(s).max()))
        err = float(np.abs(res[i, :n] - s).max())
        tol = ANALYTIC_C * (1.0 + rho * times[i]) * (run_max + ANALYTIC_FLOOR)
        require(err <= tol, lambda i=i, s=s, err=err, tol=tol: (
            f"row {i} (t={times[i]!r}): simulated state "
            f"{res[i, :n].tolist()} deviates by {err:.3g} from the analytic "
            f"solution {s.tolist()} (tolerance {tol:.3g})"))
        worst = max(worst, err / tol)
    return worst


def _well_behaved(case: dict) -> bool:
    """Fault-free linear program whose analytic solution, control and
    differential stay below 1e6 on a grid of 257 points over [0, max_time]
    (the solutions are smooth: |eigenvalues| of the generated systems are
    far below the grid frequency)."""
    m, g = _closed_loop(case)
    k = np.array(case["ctrl"]["K"], dtype=float)
    c = np.array(case["ctrl"]["c"], dtype=float)
    t_end = float(case["max_time"])
    with np.errstate(all="ignore"):
        for i in range(257):
            s = oracle_dc.linear_solution(m, g, case["start"],
                                          t_end * i / 256.0)
            if not np.isfinite(s).all():
                return False
            big = max(float(np.abs(s).max()), float(np.abs(c - k @ s).max()),
                      float(np.abs(m @ s + g).max()))
            if not big < 1e6:
                return False
    return True


def check_program(ctx: Ctx, case: dict, strict: bool = False) -> None:
    try:
        res, info = _run(case, WATCHDOG_S,
                         STRICT_WORK if strict else WORK_LIMIT)
    except gen_dc.WorkLimit:
        if strict:
            raise Violation(
                f"run_ode invoked the controller more than {STRICT_WORK} "
                "times for a differential that is NaN at t=0 (nothing can "
                "be integrated there: it does not return)") from None
        faultless = not case["eq"].get("fault") \
            and not case["ctrl"].get("fault")
        if case["eq"]["kind"] == "linear" and faultless \
                and _well_behaved(case):
            raise Violation(
                f"run_ode invoked the controller more than {WORK_LIMIT} "
                "times on a well-behaved linear program (smooth, all values "
                "below 1e6) that RK45 integrates in a few hundred steps"
            ) from None
        ctx.rec.inconc("work_limit")
        return
    except _Alarm:
        ctx.rec.inconc("watchdog")
        ctx.rec.notes.append(f"watchdog ({WATCHDOG_S} s) hit by "
                             + canon(case)[:700])
        return
    outcome = _check_shape(case, res, info)
    work = info["work"]
    labels = [f"outcome={outcome}", f"eq={case['eq'].get('name', 'linear')}",
              "work<1e3" if work < 1e3 else "work<1e4" if work < 1e4 else
              "work<1e5" if work < 1e5 else "work>=1e5",
              f"ctrl={case['ctrl'].get('name', case['ctrl'].get('sub'))}"]
    for part in ("eq", "ctrl"):
        f = case[part].get("fault")
        if f:
            labels.append(f"fault_{part}={f['when']}:"
                          f"{f.get('value', 'exp')}")
    if _bad_at_start(case, info):
        labels.append("not_ok_at_t0")
        require(outcome == "failed", "control or differential is outside "
                "(-1e10, 1e10) at t=0, yet rows were returned")
    _check_derived(case, res)
    if outcome == "failed":
        from moptipyapps.dynamic_control.ode import j_from_ode
        require(j_from_ode(res, len(case["start"])) == 1e200,
                "figure of merit of the failure row is not 1e200")
    faultless = not case["eq"].get("fault") and not case["ctrl"].get("fault")
    if case["eq"]["kind"] == "linear" and faultless:
        _rho, max_re = _spectrum(case)
        if max_re * float(case["max_time"]) > ANALYTIC_GROWTH:
            labels.append("analytic_skipped_strongly_unstable")
        elif outcome != "failed":
            frac = _analytic_deviation(case, res)
            labels.append("analytic_compared")
            labels.append("analytic_deviation=" + (
                "<1%_of_tol" if frac < 0.01 else "<10%_of_tol" if frac < 0.1
                else "<30%_of_tol" if frac < 0.3 else ">=30%_of_tol"))
        if _well_behaved(case):
            labels.append("well_behaved")
            require(outcome == "full", f"well-behaved linear program (all "
                    f"values stay below 1e8) ended {outcome}: last time "
                    f"{float(res[-1, -1])!r} of {case['max_time']!r}")
    ctx.rec.case(case, nontrivial=outcome in ("shortened", "failed"),
                 labels=labels)


def check_nan_at_start(ctx: Ctx, case: dict) -> None:
    check_program(ctx, case, strict=True)


def check_fom(ctx: Ctx, case: dict) -> None:
    res = np.array(case["rows"], dtype=float)
    _check_derived(case, res)
    big = any(abs(v) >= 1e100 for r in case["rows"] for v in r)
    ctx.rec.case(case, nontrivial=len(case["rows"]) >= 3, labels=[
        "fom_synthetic", f"fom_use={case['j']['use']}",
        "fom_has_1e100" if big else "fom_regular"])


@st.composite
def multi_cases(draw: Any) -> dict:
    """multi_run_ode: several test and training starting states of a damped
    linear system, with *different* step counts / time limits per group."""
    dim = draw(st.integers(2, 3))

    def states(k: int) -> list[list[float]]:
        return [[draw(st.integers(-40, 40)) / 8.0 for _ in range(dim)]
                for _ in range(k)]

    return {"dim": dim, "decay": draw(st.integers(1, 12)) / 4.0,
            "gain": draw(st.integers(0, 8)) / 4.0,
            "cdim": draw(st.sampled_from([1, 1, 2])),
            "test": states(draw(st.integers(0, 3))),
            "train": states(draw(st.integers(0, 3))),
            "test_steps": draw(st.integers(5, 40)),
            "train_steps": draw(st.integers(5, 40)),
            "test_time": draw(st.sampled_from([0.5, 1.0, 2.5])),
            "train_time": draw(st.sampled_from([0.25, 1.0, 3.0])),
            "use_dims": draw(st.sampled_from([-1, 1, 2])),
            "gamma": draw(st.sampled_from([0.0, 0.1, 1.5])),
            "collectors": draw(st.integers(1, 2))}


def _counted(ctrl: Any, what: str) -> Any:
    """The damped linear systems of the multi / describe families are
    integrated by RK45 in a few hundred steps: a simulation that invokes the
    controller more than WORK_LIMIT times does not terminate in any useful
    sense (deterministic bound instead of a clock)."""
    calls = [0]

    def counted(s: Any, t: float, p: Any, out: Any) -> None:
        calls[0] += 1
        if calls[0] > 4 * WORK_LIMIT:
            raise Violation(
                f"{what} invoked the controller more than {4 * WORK_LIMIT} "
                "times on damped linear systems with at most 6 starting "
                "states that RK45 integrates in a few hundred steps each")
        ctrl(s, t, p, out)
    return counted


def check_multi(ctx: Ctx, case: dict) -> None:
    """Every simulation started through multi_run_ode has the number of rows
    and the time limit requested for its group (test / training) and equals
    the corresponding single run_ode call; J and T are those of its result."""
    from moptipyapps.dynamic_control.ode import (
        j_from_ode,
        multi_run_ode,
        run_ode,
        t_from_ode,
    )
    decay, gain, dim = case["decay"], case["gain"], case["dim"]

    cdim = case.get("cdim", 1)

    def eq(s: Any, _t: float, c: Any, out: Any) -> None:
        require(len(c) == cdim, lambda: f"equations handed {len(c)} control "
                f"values, the controller has {cdim} outputs")
        for i in range(dim):
            out[i] = -decay * s[i] + c[i % cdim]

    def ctrl(s: Any, _t: float, p: Any, out: Any) -> None:
        require(len(out) == cdim, lambda: f"controller with {cdim} outputs "
                f"handed an output array of length {len(out)}")
        for k in range(cdim):
            out[k] = -p[k] * s[k]

    params = np.array([gain / (k + 1) for k in range(cdim)])
    got: list[list[tuple]] = [[] for _ in range(case["collectors"])]
    cols = [(lambda i, ode, j, t, _g=g: _g.append((i, ode, j, t)))
            for g in got]
    tests = [np.array(v, dtype=float) for v in case["test"]]
    trains = [np.array(v, dtype=float) for v in case["train"]]
    sut("multi_run_ode", multi_run_ode, tests, trains,
        cols if len(cols) > 1 else cols[0], eq,
        _counted(ctrl, "multi_run_ode"), params, cdim,
        case["test_steps"], case["test_time"], case["train_steps"],
        case["train_time"], case["use_dims"], case["gamma"])
    want = [(sp, case["test_steps"], case["test_time"]) for sp in tests] + \
        [(sp, case["train_steps"], case["train_time"]) for sp in trains]
    for g in got:
        require(len(g) == len(want), lambda: f"{len(g)} results for "
                f"{len(want)} starting states")
        for k, ((i, ode, j, t), (sp, steps, tmax)) in enumerate(zip(g, want)):
            kind = "test" if k < len(tests) else "training"
            require(i == k, f"result {k} carries index {i}")
            require(ode.shape[0] in (steps, 1), lambda: f"{kind} case {k}: "
                    f"requested {steps} rows, got {ode.shape[0]}")
            require(float(ode[-1, -1]) <= tmax, lambda: f"{kind} case {k}: "
                    f"time {ode[-1, -1]} beyond the limit {tmax}")
            require(ode.shape[1] == dim + cdim + 1, lambda: f"{kind} case "
                    f"{k}: result has {ode.shape[1]} columns, expected "
                    f"{dim} state + {cdim} control + 1 time")
            ref = run_ode(sp, eq, ctrl, params, cdim, steps, tmax)
            require(np.array_equal(ode, ref), f"{kind} case {k} differs from "
                    "the single run_ode call with the same arguments")
            require(j == j_from_ode(ode, dim, case["use_dims"],
                                    case["gamma"]) and t == t_from_ode(ode),
                    f"{kind} case {k}: J/T handed to the collector are not "
                    "those of the result")
    ctx.rec.case(case, nontrivial=(
        bool(tests) and bool(trains)
        and case["test_steps"] != case["train_steps"]),
        labels=["multi", f"multi_collectors={case['collectors']}",
                f"multi_control_dims={cdim}",
                "multi_steps_differ" if case["test_steps"]
                != case["train_steps"] else "multi_steps_equal"])


@st.composite
def describe_cases(draw: Any) -> dict:
    """A user-defined System whose figure of merit uses only a prefix of the
    state (state_dims_in_j) that differs from the plotting modulus, with its
    own gamma and different test / training budgets."""
    # (state dims, plotting modulus) pairs the plot routine can draw
    dim, mod = draw(st.sampled_from([(2, 2), (3, 3), (4, 2), (6, 2),
                                     (6, 3)]))

    def states(k: int) -> list[list[float]]:
        return [[draw(st.integers(-24, 24)) / 8.0 for _ in range(dim)]
                for _ in range(k)]

    return {"dim": dim, "mod": mod,
            "in_j": draw(st.sampled_from([-1, *range(1, dim + 1)])),
            "gamma": draw(st.sampled_from([0.1, 0.0, 1.0, 2.5])),
            "decay": draw(st.integers(1, 8)) / 4.0,
            "gain": draw(st.integers(0, 8)) / 4.0,
            "test": states(draw(st.integers(1, 2))),
            "train": states(draw(st.integers(1, 2))),
            "test_steps": draw(st.integers(10, 30)),
            "train_steps": draw(st.integers(10, 30)),
            "test_time": draw(st.sampled_from([0.5, 1.0, 2.0])),
            "train_time": draw(st.sampled_from([0.25, 1.0, 3.0]))}


def check_describe(ctx: Ctx, case: dict) -> None:
    """System.describe_system reports, per starting state, the documented
    figure of merit of the simulation it ran (CSV written by ResultsLog)."""
    import os
    import shutil
    import tempfile

    from moptipyapps.dynamic_control.ode import j_from_ode, run_ode, t_from_ode
    from moptipyapps.dynamic_control.system import System
    dim, decay, gain = case["dim"], case["decay"], case["gain"]

    def eq(s: Any, _t: float, c: Any, out: Any) -> None:
        for i in range(dim):
            out[i] = -decay * s[i] + c[0]

    def ctrl(s: Any, _t: float, p: Any, out: Any) -> None:
        out[0] = -p[0] * s[0]

    system = sut("System()", System, "gen", dim, 1, case["mod"],
                 case["in_j"], float(case["gamma"]),
                 np.array(case["test"], dtype=float),
                 np.array(case["train"], dtype=float), case["test_steps"],
                 float(case["test_time"]), case["train_steps"],
                 float(case["train_time"]), (0,))
    system.equations = eq  # type: ignore
    params = np.array([gain])
    tmp = tempfile.mkdtemp(prefix="vf_c10_")
    try:
        files = sut("describe_system", system.describe_system, None,
                    _counted(ctrl, "describe_system"), params, "d", tmp)
        csv = [f for f in files if str(f).endswith(".csv")]
        require(len(csv) == 1 and os.path.isfile(csv[0]),
                f"describe_system returned {files}")
        with open(csv[0], encoding="utf-8") as fh:
            lines = [ln.strip() for ln in fh if ln.strip()]
    finally:
        shutil.rmtree(tmp, ignore_errors=True)
    want = [(sp, case["test_steps"], float(case["test_time"]))
            for sp in case["test"]] + \
        [(sp, case["train_steps"], float(case["train_time"]))
         for sp in case["train"]]
    require(len(lines) == len(want) + 1, lambda: f"{len(lines) - 1} result "
            f"rows for {len(want)} starting states")
    use = dim if case["in_j"] <= 0 else case["in_j"]
    for k, (line, (sp, steps, tmax)) in enumerate(zip(lines[1:], want)):
        cells = [float(v) for v in line.split(";")]
        ode = run_ode(np.array(sp, dtype=float), eq, ctrl, params, 1, steps,
                      tmax)
        j = float(j_from_ode(ode, dim, use, float(case["gamma"])))
        require(cells[2] == len(ode), lambda: f"row {k}: {cells[2]} steps "
                f"logged, simulation has {len(ode)}")
        require(cells[1] == float(t_from_ode(ode)),
                f"row {k}: logged time {cells[1]}")
        require(cells[0] == j, lambda: f"row {k}: logged figure of merit "
                f"{cells[0]!r}, the documented sum over the first {use} state"
                f" dimensions with gamma={case['gamma']} is {j!r}")
    ctx.rec.case(case, nontrivial=(use != dim and use != case["mod"]),
                 labels=["describe", "describe:in_j=prefix" if use != dim
                         else "describe:in_j=all"])


SUBS = {"describe": check_describe, "multi": check_multi,
        "linear": check_program, "bundled": check_program,
        "adversarial": check_program, "nan_at_start": check_nan_at_start,
        "fom": check_fom}


def run(ctx: Ctx) -> None:
    catalog = gen_dc.controller_catalog()
    ctx.each("nan_at_start", gen_dc.nan_at_start_programs()
             if ctx.shard == 0 else [], check_nan_at_start)
    ctx.given("multi", multi_cases(), check_multi, quick=60,
              thorough=16 * 300)
    ctx.given("describe", describe_cases(), check_describe, quick=8,
              thorough=16 * 12, shrink=False)
    ctx.given("fom", gen_dc.ode_arrays(), check_fom,
              quick=300, thorough=16 * 1500)
    ctx.given("linear", gen_dc.linear_programs(), check_program,
              quick=300, thorough=16 * 900)
    ctx.given("bundled", gen_dc.bundled_programs(catalog), check_program,
              quick=160, thorough=16 * 600)
    ctx.given("adversarial", gen_dc.adversarial_programs(catalog),
              check_program, quick=300, thorough=16 * 1000)
