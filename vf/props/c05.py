"""C05 - tour length = cyclic edge sum; stored matrix, bounds, symmetry flag."""
from __future__ import annotations

from typing import Any

from hypothesis import strategies as st

from vf import gen_mat
from vf import oracle_tsp as o
from vf.core import Ctx, require, sut

META = {
    "rule": "matrices are built by construction (zero diagonal, >= 1 positive "
            "entry per row) from 10 value classes (0/1, <127, mixed magnitude "
            "palettes, constant, 'edge' classes whose derived upper bound "
            "lies within +-3 of 127 / 32767 / 2^31-1, up to 10^12, all row "
            "maxima = 10^12, 'huge' = up to (10^15-1)/n, the constructor's "
            "limit for the sum of the row maxima) x {symmetric, asymmetric, symmetric except one "
            "ordered pair} x 8 input dtypes x 1-2 drawn permutations (tour "
            "dtype of the permutation space or int64) x lower-bound argument "
            "{0 = derived, below the derived bound, between derived bound and "
            "the tour, above the upper bound}; non-trivial = n >= 3 and not "
            "all off-diagonal entries equal; distinct = distinct (matrix, "
            "tours, dtype, lower-bound argument)",
    "assumptions": [
        "reference values are Python big-int sums over the generated lists "
        "(vf/oracle_tsp.py, no code of the package)",
        "a lower-bound argument above the derived upper bound is the only "
        "input the constructor may reject (ValueError, counted)"],
    "shards": [4, 16],
    "technique": "property-based testing: Hypothesis-generated distance "
                 "matrices and permutations against a big-integer "
                 "reference sum",
    "level_text": "randomised exploration of matrices up to 12 (thorough 40) "
                  "cities incl. storage-type limits; no exhaustive claim",
    "level_note": "trusted: numpy array construction, Python integers; the "
                  "tour dtype is one of the two the callers use",
}


@st.composite
def cases(draw: Any, max_n: int) -> dict:
    mat = draw(gen_mat.tsp_matrix(min_n=2, max_n=max_n))
    n, m = mat["n"], mat["m"]
    tours = [list(draw(gen_mat.perm(n)))]
    if draw(st.booleans()):
        tours.append(list(draw(gen_mat.perm(n))))
    lo, hi = o.row_bounds(m)
    shortest = min(o.cyclic_length(m, t) for t in tours)
    mode = draw(st.sampled_from(["derived", "derived", "derived", "below",
                                 "between", "above"]))
    if mode == "below" and lo < 1:
        mode = "derived"
    if mode == "derived":
        arg = 0
    elif mode == "below":
        arg = draw(st.integers(1, lo))
    elif mode == "between":
        arg = draw(st.integers(lo, shortest))
    else:
        arg = hi + draw(st.integers(1, 3))
    mat = dict(mat, layout=draw(st.sampled_from(
        ["C", "C", "F", "T_view", "strided"])))
    return {"mat": mat, "tours": tours, "lb_mode": mode, "lb_arg": arg,
            "x_dtype": draw(st.sampled_from(["space", "int64"]))}


def build_instance(mat: dict, lb: int = 0, name: str | None = None,
                   keep: list | None = None) -> Any:
    import numpy as np
    from moptipyapps.tsp.instance import Instance
    arr = np.array(mat["m"], dtype=np.dtype(mat["in_dtype"]))
    # the memory layout the caller happens to use (same logical matrix)
    layout = mat.get("layout", "C")
    if layout == "F":
        arr = np.asfortranarray(arr)
    elif layout == "T_view":  # transposed view of the transposed data
        arr = np.ascontiguousarray(arr.T).T
    elif layout == "strided":  # every second row/column of a larger buffer
        big = np.zeros((2 * arr.shape[0], 2 * arr.shape[1]), arr.dtype)
        big[::2, ::2] = arr
        arr = big[::2, ::2]
    if keep is not None:
        keep.append(arr)  # the caller's buffer, overwritten later
    return Instance(name or f"gen{mat['n']}", int(lb), arr)


def tour_array(x: list[int], how: str) -> Any:
    import numpy as np
    if how == "space":
        from moptipy.spaces.permutations import Permutations
        arr = Permutations.standard(len(x)).create()
        arr[:] = x
        return arr
    return np.array(x, dtype=np.int64)


def check_tour_length(ctx: Ctx, case: dict) -> None:
    import numpy as np
    from moptipyapps.tsp.tour_length import TourLength
    mat = case["mat"]
    n, m = mat["n"], mat["m"]
    lo, hi = o.row_bounds(m)
    sym = o.is_symmetric(m)
    mode, arg = case["lb_mode"], case["lb_arg"]
    labels = [f"cls={mat['cls']}", f"in={mat['in_dtype']}", f"lb={mode}",
              f"layout={mat.get('layout', 'C')}",
              "symmetric" if sym else f"asymmetric({mat['kind']})",
              "n=2" if n == 2 else ("n=3..8" if n <= 8 else "n>=9")]
    try:
        buffers: list = []
        inst = sut("tsp Instance()", build_instance, mat, arg, None, buffers,
                   allowed=(ValueError,) if mode == "above" else ())
    except ValueError:
        ctx.rec.case(case, nontrivial=False,
                     labels=labels + ["rejected_lb_above_upper"])
        return
    require(mode != "above",
            lambda: f"lower bound {arg} > upper bound {hi} was accepted")
    # stored matrix, size, flag
    require(inst.shape == (n, n) and inst.n_cities == n,
            lambda: f"shape {inst.shape} / n_cities {inst.n_cities} for n={n}")
    stored = np.asarray(inst).tolist()
    require(stored == m, lambda: "stored matrix differs from the given one: "
            f"{_first_diff(stored, m)}")
    require(inst.is_symmetric is sym or (
        isinstance(inst.is_symmetric, (bool, np.bool_))
        and bool(inst.is_symmetric) == sym),
        lambda: f"is_symmetric={inst.is_symmetric!r}, matrix symmetric={sym}")
    # bounds
    ub, lb = inst.tour_length_upper_bound, inst.tour_length_lower_bound
    require(ub == hi, lambda: f"upper bound {ub} != sum of row maxima {hi}")
    want_lb = max(lo, arg)
    require(lb == want_lb, lambda: f"lower bound {lb} != {want_lb} "
            f"(sum of row minima {lo}, argument {arg})")
    dmin, dmax = o.dtype_limit(inst.dtype.name)
    require(inst.dtype.kind == "i" and dmin <= -hi and hi <= dmax,
            lambda: f"storage type {inst.dtype.name} cannot hold +-{hi}")
    f = TourLength(inst)
    require(f.lower_bound() == lb and f.upper_bound() == ub,
            "objective bounds differ from the instance bounds")
    for t in case["tours"]:
        x = tour_array(t, case["x_dtype"])
        got = sut("TourLength.evaluate", f.evaluate, x)
        want = o.cyclic_length(m, t)
        require(type(got) is int, lambda: f"evaluate returned {type(got)}")
        require(got == want, lambda: f"tour {t}: evaluate={got}, cyclic sum="
                f"{want} (storage {inst.dtype.name})")
        require(lb <= got <= ub,
                lambda: f"tour length {got} outside [{lb}, {ub}]")
        require(x.tolist() == t, "evaluate modified the tour")
    require(np.asarray(inst).tolist() == m, "evaluate modified the instance")
    # documented: "the matrix with the data (will be copied)" - the caller
    # re-uses its buffer; the instance must keep the matrix it was given
    buffers[0].fill(0)
    require(np.asarray(inst).tolist() == m, "the instance shares memory with "
            "the caller's array (documented: the matrix will be copied): "
            "overwriting the caller's buffer changed the stored matrix")
    if case["tours"]:
        t = case["tours"][0]
        got = sut("TourLength.evaluate", f.evaluate,
                  tour_array(t, case["x_dtype"]))
        require(got == o.cyclic_length(m, t), "tour length changed after the "
                "caller overwrote its own buffer")
    if inst.dtype == buffers[0].dtype:
        labels.append("storage_dtype==input_dtype")
    labels.append(f"dtype={inst.dtype.name}")
    for e in gen_mat.EDGES:
        if abs(hi - e) <= 3:
            labels.append(f"at_limit_{e}:" + ("above" if hi > e else "at_or_below"))
    if max(max(r) for r in m) >= 10 ** 12:
        labels.append("entry=10^12")
    ctx.rec.case(case, nontrivial=(n >= 3 and not o.off_diagonal_constant(m)),
                 labels=labels)


def _first_diff(a: list, b: list) -> str:
    for i, (ra, rb) in enumerate(zip(a, b)):
        for j, (va, vb) in enumerate(zip(ra, rb)):
            if va != vb:
                return f"[{i}][{j}] stored {va}, given {vb}"
    return "shape"


SUBS = {"tour_length": check_tour_length}


def run(ctx: Ctx) -> None:
    ctx.given("tour_length", cases(ctx.pick(12, 40)), check_tour_length,
              quick=2000, thorough=16 * 10000)
