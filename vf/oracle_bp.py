"""Independent reference models for 2D bin packing (no moptipyapps imports).

Instances are given as ``(W, H, items)`` with ``items = [[w, h, mult], ...]``
and packings as lists of integer rows ``[id, bin, x0, y0, x1, y1]``.
"""
from __future__ import annotations

from typing import Any

DTYPE_LIMITS = ((127, "int8"), (32767, "int16"), (2 ** 31 - 1, "int32"),
                (2 ** 63 - 1, "int64"))


def expected_dtype(W: int, H: int, items: list[list[int]]) -> str:
    """Smallest signed type holding max(max_dim+max_size+1, n_items+1)."""
    max_dim = max(W, H)
    max_size = max(max(w, h) for w, h, _m in items)
    n_items = sum(m for _w, _h, m in items)
    need = max(max_dim + max_size + 1, n_items + 1)
    for lim, name in DTYPE_LIMITS:
        if need <= lim:
            return name
    raise ValueError("too large")


def infeasibility(W: int, H: int, items: list[list[int]],
                  rows: list[list[int]], n_bins: Any) -> list[str]:
    """All reasons why ``rows`` is not a feasible packing (empty = feasible).

    Each reason starts with a clause tag:
    shape, id, bin, coords, outside, dims, overlap, mult, bins, nbins.
    """
    why: list[str] = []
    n_items = sum(m for _w, _h, m in items)
    if len(rows) != n_items or any(len(r) != 6 for r in rows):
        return [f"shape: {len(rows)} rows for {n_items} items"]
    counts = [0] * len(items)
    per_bin: dict[int, list[tuple[int, int, int, int, int]]] = {}
    for i, (iid, b, x0, y0, x1, y1) in enumerate(rows):
        if not 1 <= iid <= len(items):
            why.append(f"id: row {i} has item id {iid}")
            continue
        counts[iid - 1] += 1
        if b < 1:
            why.append(f"bin: row {i} has bin id {b}")
        if x0 >= x1 or y0 >= y1:
            why.append(f"coords: row {i} is degenerate {x0, y0, x1, y1}")
        if x0 < 0 or y0 < 0 or x1 > W or y1 > H:
            why.append(f"outside: row {i} {x0, y0, x1, y1} leaves the "
                       f"{W}x{H} bin")
        w, h = items[iid - 1][0], items[iid - 1][1]
        if (x1 - x0, y1 - y0) not in ((w, h), (h, w)):
            why.append(f"dims: row {i} is {x1 - x0}x{y1 - y0} but item {iid} "
                       f"is {w}x{h}")
        per_bin.setdefault(b, []).append((i, x0, y0, x1, y1))
    for t, (c, it) in enumerate(zip(counts, items)):
        if c != it[2]:
            why.append(f"mult: item {t + 1} occurs {c} times, not {it[2]}")
    for b, lst in per_bin.items():
        # sweep by x0 would be faster; n is small
        for a in range(len(lst)):
            ia, ax0, ay0, ax1, ay1 = lst[a]
            for c in range(a + 1, len(lst)):
                ic, cx0, cy0, cx1, cy1 = lst[c]
                if ax0 < cx1 and cx0 < ax1 and ay0 < cy1 and cy0 < ay1:
                    why.append(f"overlap: rows {ia} and {ic} in bin {b}")
    used = sorted(per_bin)
    k = len(used)
    if used and used != list(range(1, k + 1)):
        why.append(f"bins: bin ids {used[:10]}... are not 1..{k}")
    if type(n_bins) is not int or n_bins != k:
        why.append(f"nbins: n_bins is {n_bins!r} but {k} bins are used")
    return why


def clauses(reasons: list[str]) -> set[str]:
    return {r.split(":", 1)[0] for r in reasons}


def fast_overlap_free(rows: list[list[int]]) -> bool:
    """O(n log n)-ish overlap test for large packings (sweep per bin)."""
    per_bin: dict[int, list[tuple[int, int, int, int]]] = {}
    for (_iid, b, x0, y0, x1, y1) in rows:
        per_bin.setdefault(b, []).append((x0, y0, x1, y1))
    for lst in per_bin.values():
        lst.sort()
        active: list[tuple[int, int, int, int]] = []
        for r in lst:
            active = [a for a in active if a[2] > r[0]]
            for a in active:
                if a[1] < r[3] and r[1] < a[3]:
                    return False
            active.append(r)
    return True
