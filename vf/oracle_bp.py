"""Independent reference models for 2D bin packing (no moptipyapps imports).

Instances are given as ``(W, H, items)`` with ``items = [[w, h, mult], ...]``
and packings as lists of integer rows ``[id, bin, x0, y0, x1, y1]``.
"""
from __future__ import annotations

from typing import Any

DTYPE_LIMITS = ((127, "int8"), (32767, "int16"), (2 ** 31 - 1, "int32"),
                (2 ** 63 - 1, "int64"))


def expected_dtype(W: int, H: int, items: list[list[int]]) -> str:
    """Smallest signed type holding max(max_dim+max_size+1, n_items+1)."""
    max_dim = max(W, H)
    max_size = max(max(w, h) for w, h, _m in items)
    n_items = sum(m for _w, _h, m in items)
    need = max(max_dim + max_size + 1, n_items + 1)
    for lim, name in DTYPE_LIMITS:
        if need <= lim:
            return name
    raise ValueError("too large")


def infeasibility(W: int, H: int, items: list[list[int]],
                  rows: list[list[int]], n_bins: Any) -> list[str]:
    """All reasons why ``rows`` is not a feasible packing (empty = feasible).

    Each reason starts with a clause tag:
    shape, id, bin, coords, outside, dims, overlap, mult, bins, nbins.
    """
    why: list[str] = []
    n_items = sum(m for _w, _h, m in items)
    if len(rows) != n_items or any(len(r) != 6 for r in rows):
        return [f"shape: {len(rows)} rows for {n_items} items"]
    counts = [0] * len(items)
    per_bin: dict[int, list[tuple[int, int, int, int, int]]] = {}
    for i, (iid, b, x0, y0, x1, y1) in enumerate(rows):
        if not 1 <= iid <= len(items):
            why.append(f"id: row {i} has item id {iid}")
            continue
        counts[iid - 1] += 1
        if b < 1:
            why.append(f"bin: row {i} has bin id {b}")
        if x0 >= x1 or y0 >= y1:
            why.append(f"coords: row {i} is degenerate {x0, y0, x1, y1}")
        if x0 < 0 or y0 < 0 or x1 > W or y1 > H:
            why.append(f"outside: row {i} {x0, y0, x1, y1} leaves the "
                       f"{W}x{H} bin")
        w, h = items[iid - 1][0], items[iid - 1][1]
        if (x1 - x0, y1 - y0) not in ((w, h), (h, w)):
            why.append(f"dims: row {i} is {x1 - x0}x{y1 - y0} but item {iid} "
                       f"is {w}x{h}")
        per_bin.setdefault(b, []).append((i, x0, y0, x1, y1))
    for t, (c, it) in enumerate(zip(counts, items)):
        if c != it[2]:
            why.append(f"mult: item {t + 1} occurs {c} times, not {it[2]}")
    for b, lst in per_bin.items():
        # sweep by x0 would be faster; n is small
        for a in range(len(lst)):
            ia, ax0, ay0, ax1, ay1 = lst[a]
            for c in range(a + 1, len(lst)):
                ic, cx0, cy0, cx1, cy1 = lst[c]
                if ax0 < cx1 and cx0 < ax1 and ay0 < cy1 and cy0 < ay1:
                    why.append(f"overlap: rows {ia} and {ic} in bin {b}")
    used = sorted(per_bin)
    k = len(used)
    if used and used != list(range(1, k + 1)):
        why.append(f"bins: bin ids {used[:10]}... are not 1..{k}")
    if type(n_bins) is not int or n_bins != k:
        why.append(f"nbins: n_bins is {n_bins!r} but {k} bins are used")
    return why


def clauses(reasons: list[str]) -> set[str]:
    return {r.split(":", 1)[0] for r in reasons}


def fast_overlap_free(rows: list[list[int]]) -> bool:
    """O(n log n)-ish overlap test for large packings (sweep per bin)."""
    per_bin: dict[int, list[tuple[int, int, int, int]]] = {}
    for (_iid, b, x0, y0, x1, y1) in rows:
        per_bin.setdefault(b, []).append((x0, y0, x1, y1))
    for lst in per_bin.values():
        lst.sort()
        active: list[tuple[int, int, int, int]] = []
        for r in lst:
            active = [a for a in active if a[2] > r[0]]
            for a in active:
                if a[1] < r[3] and r[1] < a[3]:
                    return False
            active.append(r)
    return True


# ----------------------------------------------------------------------------
# extended feasibility: the wrapper-level clauses of C04
# ----------------------------------------------------------------------------

def infeasibility_ext(W: int, H: int, items: list[list[int]],
                      rows: Any, n_bins: Any, dtype: str,
                      same_instance: bool = True,
                      is_packing: bool = True) -> list[str]:
    """:func:`infeasibility` plus the clauses about the container object.

    ``rows`` may be any nested list (wrong shapes are reported as ``shape``),
    ``dtype`` is the numpy name of the array's element type. Additional clause
    tags: type (not a packing object), instance (belongs to another instance
    object), dtype (element type differs from the instance's storage type).
    """
    why: list[str] = []
    if not is_packing:
        why.append("type: not a Packing object")
    if not same_instance:
        why.append("instance: packing belongs to another instance object")
    if dtype != expected_dtype(W, H, items):
        why.append(f"dtype: {dtype} instead of "
                   f"{expected_dtype(W, H, items)}")
    n_items = sum(m for _w, _h, m in items)
    ok_shape = isinstance(rows, list) and len(rows) == n_items and all(
        isinstance(r, list) and len(r) == 6
        and all(type(v) is int for v in r) for r in rows)
    if not ok_shape:
        why.append("shape: not an (n_items, 6) integer matrix")
        return why
    return why + infeasibility(W, H, items, rows, n_bins)


# ----------------------------------------------------------------------------
# executable model of the documented improved-bottom-left rule (C14)
# ----------------------------------------------------------------------------

def _drop(placed: list[tuple[int, int, int, int]], W: int, H: int, w: int,
          h: int, stats: dict[str, int]) -> tuple[int, int] | None:
    """Let a ``w x h`` box fall into a bin holding the rectangles ``placed``.

    The box starts with its right edge at the right wall and its bottom edge
    on the top line of the bin. Repeated until nothing moves: (1) fall
    straight down until the floor or the top edge of a box beneath is hit;
    only if it cannot fall, (2) slide left until the wall or a box at the same
    height is hit, but stop as soon as the right edge of the moving box
    reaches the left end of a box it is resting on (there it may fall again).
    Returns the final (x0, y0) or None if the box does not end up inside.
    """
    x0, y0 = W - w, H
    while True:
        x1, y1 = x0 + w, y0 + h
        # (1) fall: boxes beneath = sharing a column with us, not above us
        floor = 0
        for (a0, b0, a1, b1) in placed:
            if a0 < x1 and a1 > x0 and b1 <= y0 and b1 > floor:
                floor = b1
        if floor < y0:
            y0 = floor
            continue
        # (2) slide left at constant height
        wall = 0          # left-most admissible x0 given walls / blockers
        blocker = False
        edge = -1         # x0 at which our right edge meets a support's left
        for (a0, b0, a1, b1) in placed:
            if a1 <= x0 and b0 < y1 and b1 > y0:        # beside us, left
                if a1 > wall:
                    wall, blocker = a1, True
            elif b1 == y0 and a0 < x1 and a1 > x0:      # we rest on it
                if a0 - w > edge:
                    edge = a0 - w
        target = max(wall, edge)
        if target >= x0:
            break  # no movement possible at all
        if edge > wall:
            stats["support_stop"] = stats.get("support_stop", 0) + 1
        elif blocker:
            stats["blocker_stop"] = stats.get("blocker_stop", 0) + 1
        else:
            stats["wall_stop"] = stats.get("wall_stop", 0) + 1
        x0 = target
    if y0 + h > H or x0 + w > W or x0 < 0:
        return None
    return x0, y0


def model_decode(W: int, H: int, items: list[list[int]], x: list[int],
                 enc: int) -> tuple[list[list[int]], int, dict[str, int]]:
    """The packing prescribed by the documentation of the two encodings.

    ``enc == 1``: an item that does not fit the bin opened last opens a new
    bin (next fit). ``enc == 2``: all open bins are tried, first bin first.
    Returns (rows in processing order, number of bins, statistics).
    """
    if enc not in (1, 2):
        raise ValueError(enc)
    bins: list[list[tuple[int, int, int, int]]] = [[]]
    rows: list[list[int]] = []
    stats: dict[str, int] = {}
    for v in x:
        iid = abs(v)
        w, h = items[iid - 1][0], items[iid - 1][1]
        if v < 0:
            w, h = h, w
        if w > W or h > H:  # does not fit in this orientation: forced turn
            w, h = h, w
            stats["forced_rotation"] = stats.get("forced_rotation", 0) + 1
        if w > W or h > H:
            raise ValueError(f"item {iid} fits the bin in no orientation")
        candidates = range(len(bins)) if enc == 2 else [len(bins) - 1]
        done = False
        for b in candidates:
            trial: dict[str, int] = {}
            pos = _drop(bins[b], W, H, w, h, trial)
            if pos is not None:
                for k, c in trial.items():
                    stats[k] = stats.get(k, 0) + c
                bins[b].append((pos[0], pos[1], pos[0] + w, pos[1] + h))
                rows.append([iid, b + 1, pos[0], pos[1], pos[0] + w,
                             pos[1] + h])
                if b + 1 < len(bins):
                    stats["earlier_bin"] = stats.get("earlier_bin", 0) + 1
                done = True
                break
        if not done:
            bins.append([(0, 0, w, h)])
            rows.append([iid, len(bins), 0, 0, w, h])
    return rows, len(bins), stats


# ----------------------------------------------------------------------------
# direct definitions of the seven objective functions (C02)
# ----------------------------------------------------------------------------

OBJECTIVES = ("binCount", "binCountAndLastEmpty", "binCountAndEmpty",
              "binCountAndLastSmall", "binCountAndSmall",
              "binCountAndLastSkyline", "binCountAndLowestSkyline")


def skyline_area(rects: list[tuple[int, int, int, int]], W: int) -> int:
    """Area under the skyline: per column the top edge of the highest box.

    Column-wise definition: cut [0, W) at every left/right edge; inside one
    interval the set of boxes covering it is constant, the skyline there is
    the maximum of their top edges (0 if no box covers the interval).
    """
    cuts = sorted({0, W} | {r[0] for r in rects} | {r[2] for r in rects})
    area = 0
    for a, b in zip(cuts, cuts[1:]):
        if a < 0 or b > W:
            continue
        top = 0
        for (x0, _y0, x1, y1) in rects:
            if x0 <= a and b <= x1 and y1 > top:
                top = y1
        area += (b - a) * top
    return area


def bin_summary(W: int, rows: list[list[int]]) -> dict[int, dict[str, int]]:
    """Per bin: number of items, covered area, area under the skyline."""
    per: dict[int, list[tuple[int, int, int, int]]] = {}
    for (_iid, b, x0, y0, x1, y1) in rows:
        per.setdefault(b, []).append((x0, y0, x1, y1))
    return {b: {"count": len(rs),
                "area": sum((r[2] - r[0]) * (r[3] - r[1]) for r in rs),
                "skyline": skyline_area(rs, W)}
            for b, rs in per.items()}


def objectives(W: int, H: int, rows: list[list[int]]) -> dict[str, int]:
    """The documented values of the seven objectives for a feasible packing.

    k = number of bins; n = number of items; A = W*H. binCount = k; the
    others are (k-1)*scale + t with scale n (item counts) or A (areas) and
    t = count / covered area / skyline area of the last bin, or the minimum
    of that quantity over all bins.
    """
    summ = bin_summary(W, rows)
    k = len(summ)
    last = max(summ)
    n = len(rows)
    A = W * H
    return {
        "binCount": k,
        "binCountAndLastEmpty": (k - 1) * n + summ[last]["count"],
        "binCountAndEmpty": (k - 1) * n + min(
            s["count"] for s in summ.values()),
        "binCountAndLastSmall": (k - 1) * A + summ[last]["area"],
        "binCountAndSmall": (k - 1) * A + min(
            s["area"] for s in summ.values()),
        "binCountAndLastSkyline": (k - 1) * A + summ[last]["skyline"],
        "binCountAndLowestSkyline": (k - 1) * A + min(
            s["skyline"] for s in summ.values()),
    }
