"""Coverage-guided fuzzing (atheris / libFuzzer) of the text parsers.

The semantic oracle sits inside each target (round trip, independent token
stream, independent feasibility check) - a target that only waits for crashes
would not test the listed properties. Targets are plain functions
``target(text) -> label`` that raise :class:`vf.core.Violation`; they are
used three ways: by the libFuzzer driver (``python -m vf.fuzz <target> ...``
in a child process), by the replay of a saved input (SUBS entry
``fuzz_<target>``) and on the seed corpus before fuzzing starts.

Everything outside the stated contract of a property (exceptions other than
the documented ValueError/TypeError on garbage, inputs the independent oracle
cannot interpret) is *counted*, never reported.
"""
from __future__ import annotations

import hashlib
import json
import os
import subprocess
import sys
import tempfile
import shutil
from typing import Any, Callable

from vf.core import Ctx, Violation, require

VERIF_DIR = os.path.dirname(os.path.dirname(os.path.abspath(__file__)))
DEPS = os.path.join(VERIF_DIR, ".deps")
MAX_NUMBER = 5000  # larger numbers make Instance.__new__ expensive (O3)


# ----------------------------------------------------------------------------
# targets
# ----------------------------------------------------------------------------

def _ints(tokens: list[str]) -> list[int] | None:
    out = []
    for t in tokens:
        try:
            out.append(int(t))
        except ValueError:
            return None
    return out


def t_qaplib(text: str) -> str:
    """C09: if the loader accepts a text, n / flows / distances are exactly
    the token stream: first n, then n*n flows, then n*n distances."""
    from moptipyapps.qap.instance import Instance
    import re
    if len(text) > 20000:
        return "skipped_long"
    # texts that certainly are valid: plain digit tokens, small n, exactly
    # 1 + 2 n^2 of them, moderate values - however they are wrapped
    raw = text.split()
    plain = bool(raw) and all(re.fullmatch(r"[0-9]{1,6}", t) for t in raw)
    must_load = False
    if plain:
        n0 = int(raw[0])
        must_load = 1 <= n0 <= 8 and len(raw) == 1 + 2 * n0 * n0
    try:
        inst = Instance.from_qaplib_stream(text.splitlines())
    except Exception as e:  # noqa: BLE001
        if must_load:
            raise Violation(f"a valid QAPLIB text was not loaded: "
                            f"{type(e).__name__}: {e}; text={text!r}") from e
        if isinstance(e, ValueError):
            return "rejected"
        return "rejected_other"
    toks = _ints(text.split())
    if toks is None or not toks:
        return "loaded_oracle_unsure"
    n = toks[0]
    require(inst.n == n, lambda: f"loaded n={inst.n}, text says {n}")
    need = 1 + 2 * n * n
    if len(toks) < need:
        raise Violation(f"loader accepted a text with {len(toks)} numbers, "
                        f"n={n} needs {need}")
    flows = [toks[1 + i * n:1 + (i + 1) * n] for i in range(n)]
    off = 1 + n * n
    dists = [toks[off + i * n:off + (i + 1) * n] for i in range(n)]
    got_f = [[int(v) for v in row] for row in inst.flows]
    got_d = [[int(v) for v in row] for row in inst.distances]
    require(got_f == flows, lambda: f"flows {got_f} but the text lists "
            f"{flows}")
    require(got_d == dists, lambda: f"distances {got_d} but the text lists "
            f"{dists}")
    return "loaded"


def t_tsplib(text: str) -> str:
    """C18/C05: an instance loaded from any accepted text survives the
    write/read round trip and its symmetry flag matches its matrix."""
    import numpy as np
    from moptipyapps.tsp.instance import Instance, _from_stream
    if len(text) > 20000:
        return "skipped_long"
    try:
        inst = _from_stream(iter(text.splitlines()), None)
    except (ValueError, TypeError):
        return "rejected"
    except (KeyError, IndexError, OverflowError, MemoryError,
            ZeroDivisionError, StopIteration):
        return "rejected_other"
    if not isinstance(inst, Instance):
        return "rejected_other"
    m = np.asarray(inst)
    sym = bool((m == m.T).all())
    require(bool(inst.is_symmetric) == sym,
            lambda: f"is_symmetric={inst.is_symmetric} for matrix "
            f"{m.tolist()}")
    lines: list[str] = []
    try:
        inst.to_stream(lines.append)
    except Exception as e:  # noqa: BLE001
        raise Violation(f"writing a loaded instance failed: "
                        f"{type(e).__name__}: {e}") from e
    try:
        again = _from_stream(iter(lines), None)
    except Exception as e:  # noqa: BLE001
        raise Violation(f"re-reading the written instance failed: "
                        f"{type(e).__name__}: {e}; written={lines[:12]}") \
            from e
    require(again.name == inst.name and again.n_cities == inst.n_cities
            and bool(again.is_symmetric) == bool(inst.is_symmetric),
            lambda: f"round trip changed name/size/symmetry: {inst.name!r},"
            f"{inst.n_cities},{inst.is_symmetric} -> {again.name!r},"
            f"{again.n_cities},{again.is_symmetric}")
    require(np.array_equal(np.asarray(again), m),
            lambda: f"round trip changed the matrix {m.tolist()} -> "
            f"{np.asarray(again).tolist()}")
    return "loaded"


def t_compact(text: str) -> str:
    """C19/C03: compact instance strings that load must round-trip and have
    consistent derived attributes."""
    import re
    from moptipyapps.binpacking2d.instance import Instance
    if len(text) > 4000:
        return "skipped_long"
    nums = [int(v) for v in re.findall(r"\d+", text)]
    if any(v > MAX_NUMBER for v in nums) or len(nums) > 120:
        return "skipped_cost"
    try:
        inst = Instance.from_compact_str(text)
    except (ValueError, TypeError, IndexError):
        return "rejected"
    s1 = inst.to_compact_str()
    try:
        again = Instance.from_compact_str(s1)
    except Exception as e:  # noqa: BLE001
        raise Violation(f"compact string {s1!r} of a loaded instance cannot "
                        f"be parsed: {type(e).__name__}: {e}") from e
    rows = [[int(v) for v in r] for r in inst]
    require([[int(v) for v in r] for r in again] == rows
            and again.dtype is inst.dtype and again.name == inst.name
            and again.bin_width == inst.bin_width
            and again.bin_height == inst.bin_height
            and again.n_items == inst.n_items
            and again.n_different_items == inst.n_different_items
            and again.total_item_area == inst.total_item_area
            and again.lower_bound_bins == inst.lower_bound_bins
            and again.to_compact_str() == s1,
            lambda: f"round trip of {s1!r} changed the instance")
    n_items = sum(r[2] for r in rows)
    area = sum(r[0] * r[1] * r[2] for r in rows)
    bin_area = int(inst.bin_width) * int(inst.bin_height)
    require(inst.n_items == n_items and inst.n_different_items == len(rows)
            and inst.total_item_area == area,
            lambda: f"derived attributes of {s1!r} are inconsistent")
    require(-(-area // bin_area) <= inst.lower_bound_bins <= n_items,
            lambda: f"lower bound {inst.lower_bound_bins} of {s1!r} outside "
            f"[area bound, n_items]")
    return "loaded"


_PACK_INSTANCES = (
    (6, 5, [[3, 2, 2], [2, 5, 1], [1, 1, 2]]),
    (4, 4, [[2, 2, 3], [4, 1, 1]]),
    (10, 3, [[3, 3, 2], [2, 1, 3]]),
)
_pack_cache: dict[int, Any] = {}


def t_packing(text: str) -> str:
    """C04: from_str returns exactly the feasible packings (judged by the
    independent oracle on the parsed numbers)."""
    from moptipyapps.binpacking2d.instance import Instance
    from moptipyapps.binpacking2d.packing_space import PackingSpace
    from vf import oracle_bp
    if not text or len(text) > 2000:
        return "skipped_long"
    which = ord(text[0]) % len(_PACK_INSTANCES)
    body = text[1:]
    W, H, items = _PACK_INSTANCES[which]
    if which not in _pack_cache:
        inst = Instance(f"f{which}", W, H, [list(r) for r in items])
        _pack_cache[which] = (inst, PackingSpace(inst))
    inst, space = _pack_cache[which]
    n_items = sum(r[2] for r in items)
    toks = _ints(body.split(";"))
    clean = toks is not None and len(toks) == n_items * 6 and all(
        -128 <= v <= 127 for v in toks) and all(
        t.strip() == t and t for t in body.split(";"))
    try:
        y = space.from_str(body)
        ok = True
    except (ValueError, TypeError):
        ok = False
    except (OverflowError, IndexError):
        return "rejected_other"
    if ok:
        rows = [[int(v) for v in r] for r in y]
        why = oracle_bp.infeasibility(W, H, items, rows, y.n_bins)
        require(not why, lambda: f"from_str returned an infeasible packing "
                f"for {body!r}: {why[:3]}")
        if clean:
            want = [toks[i * 6:(i + 1) * 6] for i in range(n_items)]
            require(rows == want, lambda: f"from_str({body!r}) = {rows}")
        return "accepted"
    if clean:
        rows = [toks[i * 6:(i + 1) * 6] for i in range(n_items)]
        k = max(r[1] for r in rows)
        why = oracle_bp.infeasibility(W, H, items, rows, k)
        require(bool(why), lambda: f"from_str rejected the feasible packing "
                f"{body!r}")
        return "rejected_infeasible"
    return "rejected"


def t_plan(text: str) -> str:
    """C19: game plan texts that parse are inside the space and round-trip."""
    import numpy as np
    from moptipyapps.ttp.game_plan_space import GamePlanSpace
    from moptipyapps.ttp.instance import Instance
    if len(text) > 2000:
        return "skipped_long"
    if "plan" not in _pack_cache:
        inst = Instance.from_resource("circ4")
        _pack_cache["plan"] = (inst, GamePlanSpace(inst))
    inst, space = _pack_cache["plan"]
    try:
        y = space.from_str(text)
    except (ValueError, TypeError):
        return "rejected"
    except (OverflowError, IndexError):
        return "rejected_other"
    n = int(inst.n_cities)
    arr = np.asarray(y)
    require(arr.shape == ((n - 1) * int(inst.rounds), n)
            and int(arr.min()) >= -n and int(arr.max()) <= n,
            lambda: f"from_str({text!r}) returned a plan outside the space")
    try:
        again = space.from_str(space.to_str(y))
    except Exception as e:  # noqa: BLE001
        raise Violation(f"text of a parsed plan cannot be parsed again: "
                        f"{type(e).__name__}: {e}") from e
    require(np.array_equal(np.asarray(again), arr) and again.dtype is y.dtype,
            "plan text does not round-trip")
    return "accepted"


TARGETS: dict[str, Callable[[str], str]] = {
    "qaplib": t_qaplib, "tsplib": t_tsplib, "compact": t_compact,
    "packing": t_packing, "plan": t_plan}
INSTRUMENT = {
    "qaplib": ["moptipyapps.qap.instance"],
    "tsplib": ["moptipyapps.tsp.instance"],
    "compact": ["moptipyapps.binpacking2d.instance"],
    "packing": ["moptipyapps.binpacking2d.packing_space",
                "moptipyapps.binpacking2d.packing"],
    "plan": ["moptipyapps.ttp.game_plan_space", "moptipyapps.ttp.game_plan"],
}
DICTS = {
    "tsplib": ["NAME", "TYPE", "TSP", "ATSP", "COMMENT", "DIMENSION",
               "EDGE_WEIGHT_TYPE", "EDGE_WEIGHT_FORMAT", "EXPLICIT",
               "FULL_MATRIX", "UPPER_ROW", "LOWER_DIAG_ROW",
               "UPPER_DIAG_ROW", "EUC_2D", "CEIL_2D", "ATT", "GEO",
               "NODE_COORD_SECTION", "EDGE_WEIGHT_SECTION", "EOF",
               "NODE_COORD_TYPE", "TWOD_COORDS", "DISPLAY_DATA_TYPE",
               "DISPLAY_DATA_SECTION", ": ", "\\x0a"],
    "qaplib": ["\\x0a", " ", "0", "12", "255"],
    "compact": [";", ",", "a;1;", ";2;"],
    "packing": [";", "1;1;0;0;"],
    "plan": [";", "-", "0;"],
}


def seed_corpus(target: str) -> list[str]:
    """A few small valid inputs (the starting corpus; the empty corpus is
    used too)."""
    out: list[str] = []
    if target == "qaplib":
        out = ["2\n0 1\n2 0\n0 3\n4 0\n", "1\n5\n7\n",
               "3 0 1 2 3 0 4 5 6 0\n0 7 8 7 0 9 8 9 0\n",
               "2\n\n0 200 300 0\n\n0 0\n0 0\n"]
    elif target == "tsplib":
        out = [
            "NAME: a\nTYPE: TSP\nDIMENSION: 3\nEDGE_WEIGHT_TYPE: EXPLICIT\n"
            "EDGE_WEIGHT_FORMAT: UPPER_ROW\nEDGE_WEIGHT_SECTION\n1 2\n3\n"
            "EOF\n",
            "NAME: b\nTYPE: ATSP\nDIMENSION: 3\nEDGE_WEIGHT_TYPE: EXPLICIT\n"
            "EDGE_WEIGHT_FORMAT: FULL_MATRIX\nEDGE_WEIGHT_SECTION\n0 1 2\n"
            "3 0 4\n5 6 0\nEOF\n",
            "NAME: c\nTYPE: TSP\nDIMENSION: 4\nEDGE_WEIGHT_TYPE: EUC_2D\n"
            "NODE_COORD_SECTION\n1 0 0\n2 3 0\n3 3 4\n4 0 4\nEOF\n",
            "NAME: d\nTYPE: TSP\nDIMENSION: 3\nEDGE_WEIGHT_TYPE: EXPLICIT\n"
            "EDGE_WEIGHT_FORMAT: LOWER_DIAG_ROW\nEDGE_WEIGHT_SECTION\n0\n1 0"
            "\n2 3 0\nEOF\n",
            "NAME: e\nTYPE: TSP\nDIMENSION: 3\nEDGE_WEIGHT_TYPE: ATT\n"
            "NODE_COORD_SECTION\n1 0 0\n2 10 0\n3 0 30\nEOF\n",
            "NAME: g\nTYPE: TSP\nDIMENSION: 3\nEDGE_WEIGHT_TYPE: GEO\n"
            "NODE_COORD_SECTION\n1 10.30 20.15\n2 -5.10 100.00\n3 0.0 0.0\n"
            "EOF\n"]
    elif target == "compact":
        out = ["a;1;5;5;2,3", "x;2;500;50;3,5;2,5,2", "b;3;10;4;1,1,3;4,10;2,2"]
    elif target == "packing":
        from moptipyapps.binpacking2d.instance import Instance
        from moptipyapps.binpacking2d.packing_space import PackingSpace
        from vf import gen_bp
        for which, (W, H, items) in enumerate(_PACK_INSTANCES):
            inst = Instance(f"f{which}", W, H, [list(r) for r in items])
            for enc in (1, 2):
                y = gen_bp.decode(inst, inst.get_standard_item_sequence(),
                                  enc)
                out.append(chr(which) + PackingSpace(inst).to_str(y))
    elif target == "plan":
        out = ["2;-1;4;-3;4;3;-2;-1;-2;1;-4;3;3;4;-1;-2;-4;-3;2;1;-3;-4;1;2",
               ";".join(["0"] * 24)]
    return out


# ----------------------------------------------------------------------------
# libFuzzer driver (child process)
# ----------------------------------------------------------------------------

def _instrument_module(atheris: Any, mod: Any) -> int:
    import types
    count = 0

    def wrap(fn: Any) -> Any:
        nonlocal count
        try:
            res = atheris.instrument_func(fn)
            count += 1
            return res
        except Exception:  # noqa: BLE001
            return fn

    for name, obj in list(vars(mod).items()):
        if isinstance(obj, types.FunctionType) \
                and obj.__module__ == mod.__name__:
            setattr(mod, name, wrap(obj))
        elif isinstance(obj, type) and obj.__module__ == mod.__name__:
            for k, v in list(vars(obj).items()):
                if isinstance(v, types.FunctionType):
                    setattr(obj, k, wrap(v))
                elif isinstance(v, staticmethod):
                    setattr(obj, k, staticmethod(wrap(v.__func__)))
                elif isinstance(v, classmethod):
                    setattr(obj, k, classmethod(wrap(v.__func__)))
    return count


def _driver(argv: list[str]) -> int:
    target, outdir = argv[0], argv[1]
    fuzz_args = argv[2:]
    from vf.run import check_import, setup_environment
    setup_environment(role="child")  # inherits the worker's private cache
    sys.path.insert(0, DEPS)
    import atheris
    check_import()
    fn = TARGETS[target]
    import importlib
    # Only plain Python functions are instrumented: instrumenting whole
    # modules at import time would also rewrite the bodies of numba-jitted
    # kernels, which numba then cannot compile.
    for modname in INSTRUMENT[target]:
        _instrument_module(atheris, importlib.import_module(modname))
    stats: dict[str, Any] = {"execs": 0, "labels": {}, "hashes": []}
    seen: set[str] = set()
    stats_path = os.path.join(outdir, "stats.json")

    def flush() -> None:
        stats["hashes"] = sorted(seen)[:20000]
        tmp = stats_path + ".tmp"
        with open(tmp, "w", encoding="utf-8") as f:
            json.dump(stats, f)
        os.replace(tmp, stats_path)

    def one(data: bytes) -> None:
        text = data.decode("latin-1")
        try:
            label = fn(text)
        except Violation as v:
            h = hashlib.blake2b(data, digest_size=8).hexdigest()
            with open(os.path.join(outdir, f"violation_{h}.json"), "w",
                      encoding="utf-8") as f:
                json.dump({"text": text, "message": str(v)}, f)
            flush()
            raise
        stats["execs"] += 1
        stats["labels"][label] = stats["labels"].get(label, 0) + 1
        if label in ("loaded", "accepted") and len(seen) < 20000:
            seen.add(hashlib.blake2b(data, digest_size=16).hexdigest())
        if stats["execs"] % 2000 == 0:
            flush()

    import random
    import re
    words = [w.encode("latin-1").decode("unicode_escape").encode("latin-1")
             for w in DICTS.get(target, [])]
    tok_re = re.compile(rb"(-?\d+(?:\.\d+)?|[A-Za-z_]+|\s+|.)", re.S)
    edges = [b"0", b"1", b"2", b"-1", b"127", b"128", b"255", b"256",
             b"32767", b"32768", b"65535", b"2147483647", b"2147483648",
             b"1000000000000", b"1000000000000000"]
    seps = [b" ", b"\n", b"\t", b"  ", b"\n\n", b";", b",", b": "]

    def mutate(data: bytes, max_size: int, seed: int) -> bytes:
        """Token-level mutations mixed with libFuzzer's byte-level ones: the
        formats are number/keyword streams, byte flips mostly break them."""
        rnd = random.Random(seed)
        if not data or rnd.random() < 0.4:
            return atheris.Mutate(data, max_size)
        toks = tok_re.findall(data)
        if not toks:
            return atheris.Mutate(data, max_size)
        for _ in range(rnd.randint(1, 3)):
            i = rnd.randrange(len(toks))
            op = rnd.randrange(9)
            t = toks[i]
            if op == 0 and (t[:1].isdigit() or t[:1] == b"-"):
                try:
                    v = int(t) if b"." not in t else int(float(t))
                    if abs(v) < 10 ** 30:
                        toks[i] = str(v + rnd.choice(
                            [-1, 1, -2, 2, 10, -10, v, -v])).encode()
                except (ValueError, OverflowError):
                    pass
            elif op == 1:
                toks[i] = rnd.choice(edges)
            elif op == 2:
                del toks[i]
                if not toks:
                    toks = [b"0"]
            elif op == 3:
                toks.insert(i, toks[i])
            elif op == 4:
                j = rnd.randrange(len(toks))
                toks[i], toks[j] = toks[j], toks[i]
            elif op == 5 and t.isspace():
                toks[i] = rnd.choice(seps)
            elif op == 6 and words:
                toks[i] = rnd.choice(words)
            elif op == 7:
                toks.insert(i, rnd.choice(seps))
            else:
                j = rnd.randrange(len(toks))
                lo, hi = min(i, j), max(i, j)
                toks[lo:hi] = toks[lo:hi] * 2 if hi - lo < 20 else []
                if not toks:
                    toks = [b"1"]
        return b"".join(toks)[:max_size]

    flush()
    atheris.Setup([sys.argv[0], *fuzz_args], one, custom_mutator=mutate)
    try:
        atheris.Fuzz()
    finally:
        flush()
    return 0


# ----------------------------------------------------------------------------
# used by the property modules
# ----------------------------------------------------------------------------

def make_sub(target: str) -> Callable[[Ctx, Any], None]:
    """SUBS entry: replay of one saved fuzz input."""

    def sub(ctx: Ctx, case: dict) -> None:
        label = TARGETS[target](case["text"])
        if case["text"] in seed_corpus(target):
            require(label in ("loaded", "accepted"),
                    f"a valid {target} text was not accepted ({label})")
        ctx.rec.case(case, nontrivial=label in ("loaded", "accepted"),
                     labels=[f"fuzz_{target}.{label}"])

    return sub


def run_target(ctx: Ctx, target: str, quick_runs: int, thorough_runs: int,
               max_len: int = 600) -> None:
    """Fuzz one target in a child process; fold the result into ``ctx``."""
    sub = f"fuzz_{target}"
    fn = make_sub(target)
    if hasattr(ctx, "source"):  # proxied re-run inside C13: not needed there
        return
    for text in seed_corpus(target):  # the (valid) seeds must be accepted
        try:
            label = TARGETS[target](text)
            require(label in ("loaded", "accepted"),
                    f"a valid {target} text was not accepted ({label})")
            ctx.rec.case({"text": text}, nontrivial=True,
                         labels=[f"{sub}.seed"])
        except Violation as v:
            ctx.violation(sub, {"text": text}, str(v))
            return
    if ctx.warm:
        return
    runs = ctx.n(quick_runs, thorough_runs)
    if not os.path.isdir(os.path.join(DEPS, "atheris")):
        ctx.rec.notes.append("atheris is not installed under .deps: fuzz "
                             "targets ran on their seed corpus only")
        return
    tmp = tempfile.mkdtemp(prefix=f"vf_fuzz_{target}_")
    try:
        corpus = os.path.join(tmp, "corpus")
        os.makedirs(corpus)
        # even shards start from the seed corpus, odd ones from nothing
        if ctx.shard % 2 == 0:
            for i, text in enumerate(seed_corpus(target)):
                with open(os.path.join(corpus, f"seed{i}"), "wb") as f:
                    f.write(text.encode("latin-1"))
        dict_path = os.path.join(tmp, "dict.txt")
        with open(dict_path, "w", encoding="utf-8") as f:
            for w in DICTS.get(target, []):
                f.write('"' + w.replace('"', '\\"') + '"\n')
        from vf.core import derive_seed
        seed = derive_seed(ctx.seed, ctx.prop, sub, ctx.shard) % (2 ** 31 - 1)
        cmd = [sys.executable, "-m", "vf.fuzz", target, tmp,
               f"-runs={runs}", f"-seed={max(1, seed)}",
               f"-max_len={max_len}", f"-dict={dict_path}",
               f"-artifact_prefix={tmp}/", "-print_final_stats=0",
               f"-max_total_time={ctx.pick(150, 900)}",
               "-verbosity=0", corpus]
        env = dict(os.environ)
        r = subprocess.run(cmd, cwd=VERIF_DIR, env=env, capture_output=True,
                           text=True, timeout=3 * 3600)
        stats_path = os.path.join(tmp, "stats.json")
        stats = {"execs": 0, "labels": {}, "hashes": []}
        if os.path.exists(stats_path):
            with open(stats_path, encoding="utf-8") as f:
                stats = json.load(f)
        viols = sorted(p for p in os.listdir(tmp)
                       if p.startswith("violation_"))
        for p in viols[:3]:
            with open(os.path.join(tmp, p), encoding="utf-8") as f:
                body = json.load(f)
            ctx.violation(sub, {"text": body["text"]}, body["message"])
        if not viols and r.returncode != 0:
            raise RuntimeError(
                f"fuzz driver {target} exited with {r.returncode}:\n"
                f"{(r.stdout + r.stderr)[-3000:]}")
        ctx.rec.bulk(int(stats["execs"]))
        if int(stats["execs"]) < runs - 2000 and not viols:
            # the campaign is bounded by its number of runs; the wall-clock
            # cap only stops a corpus that drifted to slow inputs
            ctx.rec.inconc(f"{sub}_time_cap")
        for lab, c in stats["labels"].items():
            ctx.rec.label(f"{sub}.{lab}", c)
        ctx.rec.nontrivial.update(stats["hashes"])
        ctx.rec.label(f"{sub}.corpus={'seeds' if ctx.shard % 2 == 0 else 'empty'}")
    finally:
        shutil.rmtree(tmp, ignore_errors=True)


if __name__ == "__main__":
    sys.exit(_driver(sys.argv[1:]))
