"""Independent reference models for the one-dimensional ordering package.

No import from moptipyapps. Plain Python only.

* :func:`merge_first_wins` - which objects are merged and onto which
  representative ("the first object at distance 0 wins");
* :func:`double_ranks` - average neighbour ranks (ties averaged), kept as
  *doubled* integers so that halves stay exact;
* :func:`bfs_transposition_distances` - word length of every permutation of
  ``0..n-1`` in the generating set of all transpositions (breadth first search
  in the Cayley graph, starting at the identity);
* :func:`sort_by_swaps` - an explicit sequence of swaps that turns ``p`` into
  ``q`` (used for permutations that are too long for the BFS).
"""
from __future__ import annotations

from typing import Any, Callable, Sequence


def merge_first_wins(objs: Sequence[Any],
                     dist: Callable[[Any, Any], Any]) \
        -> tuple[list[int], list[int]]:
    """Sequential model of the merge.

    Objects are looked at in their given order. An object whose distance to an
    already chosen representative is zero is merged into the *first* such
    representative (representatives in order of creation); otherwise it
    becomes a new representative.

    :return: ``(reps, owner)``: ``reps[k]`` is the original position of the
        ``k``-th representative, ``owner[p]`` the index ``k`` of the
        representative of the object at original position ``p``.
    """
    reps: list[int] = []
    owner: list[int] = []
    for p, o in enumerate(objs):
        found = -1
        for k, rp in enumerate(reps):
            if dist(objs[rp], o) <= 0:
                found = k
                break
        if found < 0:
            reps.append(p)
            found = len(reps) - 1
        owner.append(found)
    return reps, owner


def rep_matrix(objs: Sequence[Any], reps: list[int],
               dist: Callable[[Any, Any], Any]) -> list[list[Any]]:
    """Distance matrix of the representatives (upper triangle mirrored)."""
    n = len(reps)
    m: list[list[Any]] = [[0] * n for _ in range(n)]
    for i in range(n):
        for j in range(i + 1, n):
            m[i][j] = m[j][i] = dist(objs[reps[i]], objs[reps[j]])
    return m


def double_ranks(row: Sequence[Any], i: int) -> list[int]:
    """Twice the average rank of every ``j != i`` among the neighbours of i.

    The nearest neighbour has rank 1; ``t`` neighbours at the same distance
    that would occupy ranks ``a+1..a+t`` all get ``a + (t+1)/2``. Entry ``i``
    of the result is 0.
    """
    n = len(row)
    res = [0] * n
    for j in range(n):
        if j == i:
            continue
        less = 0
        equal = 0
        for k in range(n):
            if k == i:
                continue
            if row[k] < row[j]:
                less += 1
            elif row[k] == row[j]:
                equal += 1  # includes j itself
        res[j] = 2 * less + equal + 1
    return res


# ----------------------------------------------------------------------------
# transposition distance
# ----------------------------------------------------------------------------

def bfs_transposition_distances(n: int) -> dict[tuple[int, ...], int]:
    """Minimum number of transpositions needed to build each permutation."""
    start = tuple(range(n))
    dist = {start: 0}
    frontier = [start]
    pairs = [(a, b) for a in range(n) for b in range(a + 1, n)]
    d = 0
    while frontier:
        d += 1
        nxt: list[tuple[int, ...]] = []
        for perm in frontier:
            lst = list(perm)
            for a, b in pairs:
                lst[a], lst[b] = lst[b], lst[a]
                t = tuple(lst)
                if t not in dist:
                    dist[t] = d
                    nxt.append(t)
                lst[a], lst[b] = lst[b], lst[a]
        frontier = nxt
    return dist


def relative(p: Sequence[int], q: Sequence[int]) -> tuple[int, ...]:
    """The permutation ``r`` with ``q[i] == p[r[i]]`` for values 0..n-1.

    Swapping two *positions* of ``p`` multiplies ``r`` by a transposition, so
    the number of swaps needed to turn ``p`` into ``q`` is the word length of
    ``r``.
    """
    where = {v: i for i, v in enumerate(p)}
    return tuple(where[v] for v in q)


def sort_by_swaps(p: Sequence[int], q: Sequence[int]) -> int:
    """Turn a copy of ``p`` into ``q`` by explicit swaps, return their number.

    Walks from the right end and uses a position index so that the procedure
    is not the one described in the package; every swap puts exactly one
    element into its final place, which is optimal (each transposition
    changes the number of cycles of the relative permutation by exactly one).
    The result is verified.
    """
    cur = list(p)
    pos = {v: i for i, v in enumerate(cur)}
    swaps = 0
    for i in range(len(cur) - 1, -1, -1):
        want = q[i]
        if cur[i] != want:
            j = pos[want]
            cur[i], cur[j] = cur[j], cur[i]
            pos[cur[j]] = j
            pos[cur[i]] = i
            swaps += 1
    if cur != list(q):
        raise AssertionError("sort_by_swaps failed - not permutations of "
                             "each other?")
    return swaps
