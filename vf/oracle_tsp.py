"""Independent reference models for the TSP / QAP checks (C05, C06, C09, C18).

Nothing here imports moptipyapps. Everything is plain Python over ints /
``fractions.Fraction`` (numpy only for the brute-force QAP enumeration, in
int64, which is exact because all values are below 10^15).
"""
from __future__ import annotations

import itertools
import math
from fractions import Fraction
from typing import Iterable

# ----------------------------------------------------------------------------
# tours
# ----------------------------------------------------------------------------


def is_permutation(x: Iterable[int], n: int) -> bool:
    xs = [int(v) for v in x]
    return len(xs) == n and sorted(xs) == list(range(n))


def cyclic_length(m: list[list[int]], x: list[int]) -> int:
    """Sum of the distances between consecutive cities plus the closing edge."""
    total = 0
    n = len(x)
    for k in range(n):
        total += m[x[k]][x[(k + 1) % n]]
    return total


def row_bounds(m: list[list[int]]) -> tuple[int, int]:
    """(sum of the row minima, sum of the row maxima), diagonal excluded."""
    lo = hi = 0
    n = len(m)
    for i in range(n):
        row = [m[i][j] for j in range(n) if j != i]
        lo += min(row)
        hi += max(row)
    return lo, hi


def is_symmetric(m: list[list[int]]) -> bool:
    n = len(m)
    return all(m[i][j] == m[j][i] for i in range(n) for j in range(i))


def off_diagonal_constant(m: list[list[int]]) -> bool:
    n = len(m)
    vals = {m[i][j] for i in range(n) for j in range(n) if i != j}
    return len(vals) <= 1


def reversed_segment(x: list[int], i: int, j: int) -> list[int]:
    """``x`` with the positions i..j (inclusive) in reverse order."""
    return x[:i] + x[i:j + 1][::-1] + x[j + 1:]


def changed_span(a: list[int], b: list[int]) -> tuple[int, int] | None:
    """First and last index where two equally long sequences differ."""
    diff = [k for k in range(len(a)) if a[k] != b[k]]
    if not diff:
        return None
    return diff[0], diff[-1]


SIGNED_RANGES = (("int8", 127), ("int16", 32767), ("int32", 2 ** 31 - 1),
                 ("int64", 2 ** 63 - 1))


def dtype_limit(name: str) -> tuple[int, int]:
    """(min, max) of a numpy integer type given by name."""
    bits = int("".join(c for c in name if c.isdigit()))
    if name.startswith("u"):
        return 0, 2 ** bits - 1
    return -(2 ** (bits - 1)), 2 ** (bits - 1) - 1


# ----------------------------------------------------------------------------
# QAP
# ----------------------------------------------------------------------------

def qap_value(flows: list[list[int]], dists: list[list[int]],
              p: list[int]) -> int:
    """sum_ij flows[i][j] * dists[p[i]][p[j]] in Python integers."""
    n = len(p)
    total = 0
    for i in range(n):
        fi = flows[i]
        di = dists[p[i]]
        for j in range(n):
            total += fi[j] * di[p[j]]
    return total


def qap_rearrangement_bounds(flows: list[list[int]],
                             dists: list[list[int]]) -> tuple[int, int]:
    """The rearrangement-inequality bounds over the flattened matrices."""
    f = sorted(v for r in flows for v in r)
    d = sorted(v for r in dists for v in r)
    return (sum(a * b for a, b in zip(f, reversed(d))),
            sum(a * b for a, b in zip(f, d)))


def qap_min_max(flows: list[list[int]],
                dists: list[list[int]]) -> tuple[int, int]:
    """True minimum and maximum over all n! permutations (n <= 8)."""
    import numpy as np
    n = len(flows)
    if qap_rearrangement_bounds(flows, dists)[1] >= 2 ** 62:
        raise ValueError("values too large for the int64 enumeration")
    perms = np.array(list(itertools.permutations(range(n))), dtype=np.int64)
    f = np.array(flows, dtype=np.int64)
    d = np.array(dists, dtype=np.int64)
    vals = (d[perms[:, :, None], perms[:, None, :]] * f[None, :, :]).sum(
        axis=(1, 2))
    return int(vals.min()), int(vals.max())


# ----------------------------------------------------------------------------
# TSPLIB95 distance functions, exact
# ----------------------------------------------------------------------------

def dec(text: str) -> Fraction:
    """Exact value of a decimal literal such as '12.50' or '6.42000e+02'."""
    return Fraction(text)


def _floor(q: Fraction) -> int:
    return q.numerator // q.denominator


def _ceil(q: Fraction) -> int:
    return -((-q.numerator) // q.denominator)


def floor_sqrt(q: Fraction) -> int:
    """floor(sqrt(q)) for a rational q >= 0."""
    return math.isqrt(_floor(q))


def nint_sqrt(q: Fraction) -> int:
    """(int)(sqrt(q) + 0.5), exactly."""
    return (floor_sqrt(4 * q) + 1) // 2


def ceil_sqrt(q: Fraction) -> int:
    """Smallest integer c with c*c >= q."""
    t = floor_sqrt(q)
    return t if t * t == q else t + 1


SQRT_SCALE = 10 ** 12


def sqrt_bracket(q: Fraction) -> tuple[Fraction, Fraction]:
    """Rationals lo <= sqrt(q) <= hi with hi - lo = 1e-12."""
    t = math.isqrt(_floor(q * SQRT_SCALE * SQRT_SCALE))
    lo = Fraction(t, SQRT_SCALE)
    if lo * lo == q:
        return lo, lo
    return lo, Fraction(t + 1, SQRT_SCALE)


def _nint(q: Fraction) -> int:
    return _floor(q + Fraction(1, 2))


def sq_dist(a: tuple[Fraction, Fraction], b: tuple[Fraction, Fraction]) \
        -> Fraction:
    dx = a[0] - b[0]
    dy = a[1] - b[1]
    return dx * dx + dy * dy


def planar_distance(kind: str, a: tuple[Fraction, Fraction],
                    b: tuple[Fraction, Fraction],
                    tol: Fraction) -> tuple[int, int, int, bool]:
    """(exact, lowest accepted, highest accepted, irrational-before-rounding).

    ``kind`` in EUC_2D, CEIL_2D, ATT. The accepted interval is the image of
    [sqrt - tol, sqrt + tol] under the (monotone) rounding function: with
    ``tol == 0`` it collapses to the exact value.
    """
    s = sq_dist(a, b)
    if kind == "ATT":
        s = s / 10
    if kind == "EUC_2D":
        exact = nint_sqrt(s)
        rnd = _nint
    elif kind in ("CEIL_2D", "ATT"):
        exact = ceil_sqrt(s)
        rnd = _ceil
    else:
        raise ValueError(kind)
    lo, hi = sqrt_bracket(s)
    non_integer = not (lo == hi and lo.denominator == 1)
    if tol == 0:
        return exact, exact, exact, non_integer
    low = rnd(max(Fraction(0), lo - tol))
    high = rnd(hi + tol)
    return exact, min(low, exact), max(high, exact), non_integer


GEO_PI = Fraction("3.141592")
GEO_RRR = 6378.388


def geo_radians(x: Fraction) -> Fraction:
    """TSPLIB95 / TSPFAQ: deg = (int) x; min = x - deg; PI*(deg+5*min/3)/180."""
    deg = _floor(x) if x >= 0 else -_floor(-x)  # truncation toward zero
    minutes = x - deg
    return GEO_PI * (deg + 5 * minutes / 3) / 180


def geo_distance(a: tuple[Fraction, Fraction], b: tuple[Fraction, Fraction],
                 tol: float) -> tuple[int, int, int, float]:
    """(value, lowest accepted, highest accepted, pre-truncation value).

    a, b are (latitude, longitude) in DDD.MM form. The angle differences are
    formed exactly, the trigonometry is done in double precision. The
    accepted interval is the image of [v - tol, v + tol] under truncation;
    where acos is ill-conditioned (argument within 1e-9 of +-1: coinciding or
    antipodal points, e.g. two cities at a pole) the argument is additionally
    moved by +-1e-14 (and clamped to [-1, 1]).
    """
    lat1, lon1 = geo_radians(a[0]), geo_radians(a[1])
    lat2, lon2 = geo_radians(b[0]), geo_radians(b[1])
    q1 = math.cos(float(lon1 - lon2))
    q2 = math.cos(float(lat1 - lat2))
    q3 = math.cos(float(lat1 + lat2))
    arg = 0.5 * ((1.0 + q1) * q2 - (1.0 - q1) * q3)
    arg = max(-1.0, min(1.0, arg))
    v = GEO_RRR * math.acos(arg) + 1.0
    v_lo, v_hi = v, v
    if abs(arg) > 1.0 - 1e-9:
        v_lo = GEO_RRR * math.acos(min(1.0, arg + 1e-14)) + 1.0
        v_hi = GEO_RRR * math.acos(max(-1.0, arg - 1e-14)) + 1.0
    return int(v), int(v_lo - tol), int(v_hi + tol), v


# ----------------------------------------------------------------------------
# TSPLIB explicit edge-weight formats (writers)
# ----------------------------------------------------------------------------

EXPLICIT_FORMATS = ("FULL_MATRIX", "UPPER_ROW", "LOWER_DIAG_ROW",
                    "UPPER_DIAG_ROW")


def explicit_rows(m: list[list[int]], fmt: str,
                  diag: list[int]) -> list[list[int]]:
    """The numbers of the EDGE_WEIGHT_SECTION, row by row, for ``fmt``.

    ``diag[i]`` is written wherever the format carries the diagonal entry of
    city i (its value is irrelevant for the distances).
    """
    n = len(m)

    def cell(i: int, j: int) -> int:
        return diag[i] if i == j else m[i][j]

    if fmt == "FULL_MATRIX":
        return [[cell(i, j) for j in range(n)] for i in range(n)]
    if fmt == "UPPER_ROW":
        return [[m[i][j] for j in range(i + 1, n)] for i in range(n - 1)]
    if fmt == "LOWER_DIAG_ROW":
        return [[cell(i, j) for j in range(i + 1)] for i in range(n)]
    if fmt == "UPPER_DIAG_ROW":
        return [[cell(i, j) for j in range(i, n)] for i in range(n)]
    raise ValueError(fmt)


# documented optimal tour lengths of the instances with a shipped tour
# (TSPLIB95 "Optimal solutions for symmetric TSPs"; cn11: documentation of
# the instance, 9547 km)
DOCUMENTED_OPTIMA = {
    "a280": 2579, "att48": 10628, "bayg29": 1610, "bays29": 2020,
    "berlin52": 7542, "brg180": 1950, "ch130": 6110, "ch150": 6528,
    "cn11": 9547, "eil101": 629, "eil51": 426, "eil76": 538, "fri26": 937,
    "gr120": 6942, "gr202": 40160, "gr24": 1272, "gr48": 5046,
    "gr666": 294358, "gr96": 55209, "kroA100": 21282, "kroC100": 20749,
    "kroD100": 21294, "lin105": 14379, "pcb442": 50778, "pr1002": 259045,
    "pr76": 108159, "rd100": 7910, "st70": 675, "tsp225": 3916,
    "ulysses16": 6859, "ulysses22": 7013}
