"""Support for history (stateful) checks.

A property module writes an *executor*: a plain class with

    __init__(self, ctx, init)     ``init`` is JSON data describing the set-up
    apply(self, op)               ``op`` is JSON data; raises Violation
    finish(self)                  optional; final checks + ctx.rec.case(...)

:func:`make_machine` turns it into a Hypothesis RuleBasedStateMachine whose
rules only *draw* ``init``/``op`` values; the list ``{"init":…, "ops":[…]}`` is
the replayable history, and :func:`replay_history` runs one without Hypothesis.
"""
from __future__ import annotations

from typing import Any, Callable

from hypothesis import strategies as st
from hypothesis.stateful import (
    RuleBasedStateMachine,
    initialize,
    precondition,
    rule,
)

from vf.core import CaseTimeout, Ctx, Violation


def make_machine(executor_cls: type, init_strategy: Any,
                 op_strategy: Callable[[Any], Any]) -> type:
    """Build a state machine class around ``executor_cls``.

    ``op_strategy(executor)`` returns the strategy for the next operation given
    the live executor (so operations can depend on the current state).
    """

    class Machine(RuleBasedStateMachine):
        CTX: Ctx
        HOLDER: dict

        def __init__(self) -> None:
            super().__init__()
            self.ex = None
            self.dead = False
            self.hist: dict[str, Any] = {"init": None, "ops": []}

        def _guard(self, fn: Callable[[], None]) -> None:
            try:
                fn()
            except CaseTimeout:
                # a watchdog fired: the rest of this history is inconclusive
                self.CTX.rec.inconc("case_watchdog")
                self.ex = None
                self.dead = True
            except Violation as v:
                self.HOLDER["history"] = {
                    "init": self.hist["init"], "ops": list(self.hist["ops"])}
                self.HOLDER["msg"] = str(v)
                raise

        @initialize(init=init_strategy)
        def setup(self, init: Any) -> None:
            self.hist["init"] = init

            def go() -> None:
                self.ex = executor_cls(self.CTX, init)
            self._guard(go)

        @precondition(lambda self: self.ex is not None)
        @rule(data=st.data())
        def step(self, data: Any) -> None:
            op = data.draw(op_strategy(self.ex))
            self.hist["ops"].append(op)
            self._guard(lambda: self.ex.apply(op))

        def teardown(self) -> None:
            if self.ex is not None and hasattr(self.ex, "finish"):
                try:
                    self._guard(self.ex.finish)
                finally:
                    if hasattr(self.ex, "close"):
                        self.ex.close()

    Machine.__name__ = executor_cls.__name__ + "Machine"
    Machine.__qualname__ = Machine.__name__
    return Machine


def replay_history(executor_cls: type) -> Callable[[Ctx, Any], None]:
    """The replay function (SUBS entry) of a history check."""

    def run(ctx: Ctx, history: Any) -> None:
        ex = executor_cls(ctx, history["init"])
        try:
            for op in history["ops"]:
                ex.apply(op)
            if hasattr(ex, "finish"):
                ex.finish()
        finally:
            if hasattr(ex, "close"):
                ex.close()

    return run
