"""Hypothesis strategies for the travelling tournament problem (TTP).

All strategies return plain JSON data. A *plan* is a list of ``D = (n-1) *
rounds`` rows of ``n`` integers in ``-n..n`` (see ``vf/oracle_ttp.py``), a
*setting* the list ``[home_min, home_max, away_min, away_max, sep_min,
sep_max]``, an *instance case* the dict ``{"n", "rounds", "st"}`` with the
optional keys ``"dist"`` (matrix), ``"teams"`` (names) and ``"name"``.
``build_instance`` turns an instance case into a ``ttp.Instance`` through the
public constructor. Everything is built by construction (no filtering); the
only helper used from the oracle module is ``measure`` (to place generated
constraint settings just inside / just outside what a plan needs).

Plan families (``cls`` of a plan case)
* ``uniform``   every entry uniform in ``-n..n``;
* ``circle``    a complete double/multi round-robin from the circle method
                (teams relabelled, days reordered, orientation pattern
                drawn, odd rounds mirrored), optionally with a few games
                turned around or one day replaced by a copy of another
                -> complete and mutually consistent;
* ``doubled``   (C07 only) four rounds, every day of a single round robin
                played twice in a row, then everything mirrored: all streaks
                have even length, so streak minima >= 2 can be satisfied;
* ``daywise``   every day an arbitrary perfect matching with arbitrary home
                teams -> complete and consistent, pair counts arbitrary;
* ``perturbed`` circle/daywise with 1-3 entries overwritten or two entries of
                a day exchanged;
* ``bye``       circle/daywise with idle teams (single entries, whole games,
                a whole day or a whole team);
* ``selfplay``  circle/daywise/uniform with entries ``+-(t+1)`` in column t;
* ``pattern``   every team column periodic with a short drawn period (e.g.
                "always at home against the same team") - the plans with the
                largest error counts.
"""
from __future__ import annotations

from typing import Any

from hypothesis import strategies as st

from vf import oracle_ttp

PLAN_CLASSES = ("uniform", "circle", "doubled", "daywise", "perturbed",
                "bye", "selfplay", "pattern")


def n_days(n: int, rounds: int) -> int:
    return (n - 1) * rounds


def streak_limit(n: int, rounds: int) -> int:
    """Largest value the constructor accepts for every constraint value."""
    return rounds * n - 1


# ----------------------------------------------------------------------------
# constraint settings
# ----------------------------------------------------------------------------

def bundled_setting(n: int, rounds: int) -> list[int]:
    """The setting of the bundled instances, cut to the admissible range."""
    ll = streak_limit(n, rounds)
    return [1, min(3, ll), 1, min(3, ll), 1, min(n_days(n, rounds), ll)]


@st.composite
def free_setting(draw: Any, n: int, rounds: int) -> list[int]:
    """Anything the constructor accepts: 1 <= min <= max <= ll for streaks,
    0 <= sep_min <= sep_max <= ll."""
    ll = streak_limit(n, rounds)
    hmin = draw(st.integers(1, ll))
    hmax = draw(st.integers(hmin, ll))
    amin = draw(st.integers(1, ll))
    amax = draw(st.integers(amin, ll))
    smin = draw(st.integers(0, ll))
    smax = draw(st.integers(smin, ll))
    return [hmin, hmax, amin, amax, smin, smax]


@st.composite
def small_setting(draw: Any, n: int, rounds: int) -> list[int]:
    """Values in the range where schedules can still satisfy them."""
    ll = streak_limit(n, rounds)
    hmin = draw(st.integers(1, min(3, ll)))
    hmax = draw(st.integers(hmin, min(6, ll)))
    amin = draw(st.integers(1, min(3, ll)))
    amax = draw(st.integers(amin, min(6, ll)))
    smin = draw(st.integers(0, min(2, ll)))
    smax = draw(st.sampled_from(sorted({min(max(smin, 1), ll),
                                        min(max(smin, 2), ll),
                                        min(max(smin, n_days(n, rounds)),
                                            ll), ll})))
    return [hmin, hmax, amin, amax, smin, smax]


@st.composite
def fitted_setting(draw: Any, n: int, rounds: int, plan: list[list[int]],
                   cut: bool) -> list[int]:
    """A setting that the streaks and separations of a complete consistent
    ``plan`` just satisfy (``cut`` false) or that exactly one of the six
    values violates (``cut`` true, when possible)."""
    ll = streak_limit(n, rounds)
    m = oracle_ttp.measure(plan, n)
    h_lo, h_hi = m["home"] or (1, 1)
    a_lo, a_hi = m["away"] or (1, 1)
    gap = m["gap"]
    g_lo, g_hi = gap if gap else (ll, 0)
    options = []
    if cut:
        if h_lo < ll:
            options.append("hmin")
        if h_hi >= 2:
            options.append("hmax")
        if a_lo < ll:
            options.append("amin")
        if a_hi >= 2:
            options.append("amax")
        if gap and g_lo < ll:
            options.append("smin")
        if gap and g_hi >= 1:
            options.append("smax")
    which = draw(st.sampled_from(options)) if options else ""
    # satisfied values first
    hmin = draw(st.integers(1, h_lo))
    hmax = draw(st.integers(h_hi, min(ll, h_hi + 2)))
    amin = draw(st.integers(1, a_lo))
    amax = draw(st.integers(a_hi, min(ll, a_hi + 2)))
    smin = draw(st.integers(0, min(g_lo, ll)))
    smax = draw(st.integers(max(g_hi, smin), ll))
    if which == "hmin":
        hmin = draw(st.integers(h_lo + 1, min(ll, h_lo + 2)))
        hmax = max(hmax, hmin)
    elif which == "hmax":
        hmax = draw(st.integers(max(1, h_hi - 2), h_hi - 1))
        hmin = min(hmin, hmax)
    elif which == "amin":
        amin = draw(st.integers(a_lo + 1, min(ll, a_lo + 2)))
        amax = max(amax, amin)
    elif which == "amax":
        amax = draw(st.integers(max(1, a_hi - 2), a_hi - 1))
        amin = min(amin, amax)
    elif which == "smin":
        smin = draw(st.integers(g_lo + 1, min(ll, g_lo + 2)))
        smax = max(smax, smin)
    elif which == "smax":
        smax = draw(st.integers(max(0, g_hi - 2), g_hi - 1))
        smin = min(smin, smax)
    return [hmin, hmax, amin, amax, smin, smax]


@st.composite
def settings_for(draw: Any, n: int, rounds: int,
                 plan: list[list[int]] | None = None) -> list[int]:
    modes = ["bundled", "small", "small", "free"]
    if plan is not None and oracle_ttp.is_complete(plan) \
            and not oracle_ttp.inconsistencies(plan):
        modes += ["fit", "fit", "cut", "cut", "cut"]
    mode = draw(st.sampled_from(modes))
    if mode == "bundled":
        return bundled_setting(n, rounds)
    if mode == "small":
        return draw(small_setting(n, rounds))
    if mode == "free":
        return draw(free_setting(n, rounds))
    return draw(fitted_setting(n, rounds, plan, cut=(mode == "cut")))


# ----------------------------------------------------------------------------
# plans
# ----------------------------------------------------------------------------

def _row_of(games: list[tuple[int, int]], n: int) -> list[int]:
    """Row of one day from (home, away) pairs (0-based teams)."""
    row = [0] * n
    for h, a in games:
        row[h] = a + 1
        row[a] = -(h + 1)
    return row


def circle_days(n: int) -> list[list[tuple[int, int]]]:
    """Single round robin by the circle method: n-1 days of n/2 pairs."""
    m = n - 1
    days = []
    for r in range(m):
        pairs = [(r, n - 1)]
        for k in range(1, n // 2):
            pairs.append(((r + k) % m, (r - k) % m))
        days.append(pairs)
    return days


@st.composite
def circle_plans(draw: Any, n: int, rounds: int, max_flips: int = 2
                 ) -> list[list[int]]:
    """Complete, mutually consistent plan in which every pairing meets
    exactly ``rounds`` times with alternating home team (before flips)."""
    base = circle_days(n)
    per_round = len(base)
    n_games = per_round * (n // 2)
    obits = draw(st.integers(0, (1 << n_games) - 1))
    relabel = draw(st.permutations(list(range(n))))
    days: list[list[tuple[int, int]]] = []
    order_mode = draw(st.sampled_from(["mirror", "per_round", "global"]))
    first_order = list(draw(st.permutations(list(range(per_round)))))
    for q in range(rounds):
        order = first_order if (order_mode == "mirror" or q == 0) else \
            list(draw(st.permutations(list(range(per_round)))))
        for r in order:
            games = []
            for g, (a, b) in enumerate(base[r]):
                flip = ((obits >> (r * (n // 2) + g)) & 1) ^ (q & 1)
                h, aw = (b, a) if flip else (a, b)
                games.append((relabel[h], relabel[aw]))
            days.append(games)
    if order_mode == "global":
        days = list(draw(st.permutations(days)))
    if max_flips > 0 and draw(st.integers(0, 5)) == 0:
        # one day replaced by a (possibly mirrored) copy of another day:
        # some pairings meet too often, others not often enough
        a = draw(st.integers(0, len(days) - 1))
        b = draw(st.integers(0, len(days) - 1))
        mirror = draw(st.booleans())
        days[b] = [(aw, h) if mirror else (h, aw) for h, aw in days[a]]
    n_flips = draw(st.sampled_from([0, 0, 0, 1, 1, 2])) if max_flips > 0 \
        else 0
    for _ in range(min(n_flips, max_flips)):
        d = draw(st.integers(0, len(days) - 1))
        g = draw(st.integers(0, n // 2 - 1))
        h, aw = days[d][g]
        days[d] = days[d][:g] + [(aw, h)] + days[d][g + 1:]
    return [_row_of(games, n) for games in days]


@st.composite
def doubled_plans(draw: Any, n: int) -> list[list[int]]:
    """Four-round plan (``D = 4(n-1)``) in which every home/away streak has an
    even length >= 2: a single round robin whose days are each played twice
    in a row, followed by the same with all games turned around. Every
    pairing meets 4 times, 2:2. With fitted settings these are the feasible
    plans for streak minima >= 2 (which the other families almost never
    produce)."""
    base = circle_days(n)
    m = len(base)
    obits = draw(st.integers(0, (1 << (m * (n // 2))) - 1))
    relabel = draw(st.permutations(list(range(n))))
    days = []
    for q in range(2):
        for r in draw(st.permutations(list(range(m)))):
            games = []
            for g, (a, b) in enumerate(base[r]):
                flip = ((obits >> (r * (n // 2) + g)) & 1) ^ q
                h, aw = (b, a) if flip else (a, b)
                games.append((relabel[h], relabel[aw]))
            days.append(games)
            days.append(games)
    return [_row_of(games, n) for games in days]


@st.composite
def daywise_plans(draw: Any, n: int, rounds: int) -> list[list[int]]:
    """Every day a drawn perfect matching (consecutive teams of a drawn
    permutation, the first of each pair at home)."""
    plan = []
    for _ in range(n_days(n, rounds)):
        p = draw(st.permutations(list(range(n))))
        plan.append(_row_of([(p[2 * k], p[2 * k + 1])
                             for k in range(n // 2)], n))
    return plan


@st.composite
def uniform_plans(draw: Any, n: int, rounds: int) -> list[list[int]]:
    return draw(st.lists(
        st.lists(st.integers(-n, n), min_size=n, max_size=n),
        min_size=n_days(n, rounds), max_size=n_days(n, rounds)))


@st.composite
def pattern_plans(draw: Any, n: int, rounds: int) -> list[list[int]]:
    """Periodic team columns with period 1..3 over non-zero values (mostly)."""
    D = n_days(n, rounds)
    cols = []
    same_sign = draw(st.sampled_from([0, 0, 1, -1]))
    for _t in range(n):
        period = draw(st.integers(1, 3))
        vals = []
        for _ in range(period):
            v = draw(st.integers(1, n - 1))
            if v > _t:
                v += 1      # another team (self-play has its own family)
            s = same_sign or draw(st.sampled_from([1, -1]))
            vals.append(v * s)
        cols.append([vals[d % period] for d in range(D)])
    return [[cols[t][d] for t in range(n)] for d in range(D)]


@st.composite
def _consistent_base(draw: Any, n: int, rounds: int) -> list[list[int]]:
    if draw(st.integers(0, 2)) == 0:
        return draw(daywise_plans(n, rounds))
    return draw(circle_plans(n, rounds))


@st.composite
def perturbed_plans(draw: Any, n: int, rounds: int) -> list[list[int]]:
    plan = [list(r) for r in draw(_consistent_base(n, rounds))]
    D = len(plan)
    for _ in range(draw(st.integers(1, 3))):
        d = draw(st.integers(0, D - 1))
        t = draw(st.integers(0, n - 1))
        if draw(st.booleans()):
            plan[d][t] = draw(st.integers(-n, n))
        else:
            u = draw(st.integers(0, n - 1))
            plan[d][t], plan[d][u] = plan[d][u], plan[d][t]
    return plan


@st.composite
def bye_plans(draw: Any, n: int, rounds: int) -> list[list[int]]:
    plan = [list(r) for r in draw(_consistent_base(n, rounds))]
    D = len(plan)
    mode = draw(st.sampled_from(["entry", "entry", "game", "game", "day",
                                 "team", "all"]))
    if mode == "all":
        return [[0] * n for _ in range(D)]
    if mode == "day":
        plan[draw(st.integers(0, D - 1))] = [0] * n
        return plan
    if mode == "team":
        t = draw(st.integers(0, n - 1))
        both = draw(st.booleans())
        for d in range(D):
            o = abs(plan[d][t]) - 1
            plan[d][t] = 0
            if both:
                plan[d][o] = 0
        return plan
    for _ in range(draw(st.integers(1, 3))):
        d = draw(st.integers(0, D - 1))
        t = draw(st.integers(0, n - 1))
        o = abs(plan[d][t]) - 1
        plan[d][t] = 0
        if mode == "game" and o >= 0:
            plan[d][o] = 0
    return plan


@st.composite
def selfplay_plans(draw: Any, n: int, rounds: int,
                   last_team: bool | None = None) -> list[list[int]]:
    """Plans in which at least one team "meets itself": entry ``+(t+1)`` or
    ``-(t+1)`` in column ``t``. With ``last_team`` true the last team (index
    ``n-1``, the largest pair index) is among them, with false it is not
    forced, with None this is drawn. Modes: 1-3 single entries, a whole
    column, every team on one day, every entry of the plan."""
    kind = draw(st.integers(0, 3))
    if kind == 0:
        plan = draw(uniform_plans(n, rounds))
    else:
        plan = [list(r) for r in draw(_consistent_base(n, rounds))]
    D = len(plan)
    if last_team is None:
        last_team = draw(st.booleans())
    mode = draw(st.sampled_from(["entries", "entries", "entries", "column",
                                 "day", "all"]))
    sign = st.sampled_from([1, -1])
    if mode == "all":
        return [[(t + 1) * draw(sign) for t in range(n)] for _ in range(D)]
    if mode == "day":
        d = draw(st.integers(0, D - 1))
        plan[d] = [(t + 1) * draw(sign) for t in range(n)]
        return plan
    if mode == "column":
        t = n - 1 if last_team else draw(st.integers(0, n - 1))
        s = draw(st.sampled_from([1, -1, 0]))
        for d in range(D):
            plan[d][t] = (t + 1) * (s or draw(sign))
        return plan
    k = draw(st.integers(1, 3))
    for i in range(k):
        d = draw(st.integers(0, D - 1))
        t = n - 1 if (last_team and i == 0) else draw(st.integers(0, n - 1))
        plan[d][t] = (t + 1) * draw(sign)
    return plan


def plans_of_class(cls: str, n: int, rounds: int) -> Any:
    return {"uniform": uniform_plans, "circle": circle_plans,
            "daywise": daywise_plans, "perturbed": perturbed_plans,
            "bye": bye_plans, "selfplay": selfplay_plans,
            "pattern": pattern_plans}[cls](n, rounds)


SIZES = ((2, 1), (2, 2), (2, 3), (4, 1), (4, 2), (4, 2), (4, 2), (4, 3),
         (4, 3), (6, 1), (6, 2), (6, 2), (6, 2), (6, 3), (6, 3), (8, 1),
         (8, 2), (8, 2), (8, 3), (8, 3))
CLASS_MIX = ("uniform", "circle", "circle", "circle", "circle", "circle",
             "doubled", "daywise", "daywise", "perturbed", "perturbed",
             "bye", "selfplay", "pattern")


@st.composite
def plan_cases(draw: Any, sizes: tuple = SIZES, classes: tuple = CLASS_MIX
               ) -> dict:
    """Case of the C07 plan check:
    {"n", "rounds", "st", "cls", "plan", "pre"}; ``pre`` selects the plan
    that is evaluated first with the same objective object (0 = none)."""
    n, rounds = draw(st.sampled_from(sizes))
    cls = draw(st.sampled_from(classes))
    if cls == "doubled":
        n, rounds = draw(st.sampled_from([4, 6])), 4
        plan = draw(doubled_plans(n))
    else:
        plan = draw(plans_of_class(cls, n, rounds))
    sett = draw(settings_for(n, rounds, plan))
    return {"n": n, "rounds": rounds, "st": sett, "cls": cls,
            "plan": plan, "pre": draw(st.integers(0, 3))}


@st.composite
def selfplay_cases(draw: Any, sizes: tuple = SIZES) -> dict:
    """Plan cases (as :func:`plan_cases`) of the self-play family only; half
    of them involve the last team."""
    n, rounds = draw(st.sampled_from(sizes))
    plan = draw(selfplay_plans(n, rounds))
    return {"n": n, "rounds": rounds,
            "st": draw(settings_for(n, rounds)), "cls": "selfplay",
            "plan": plan, "pre": draw(st.integers(0, 3))}


@st.composite
def extreme_setting(draw: Any, n: int, rounds: int) -> list[int]:
    """Values at the ends of the admissible range (largest minima)."""
    ll = streak_limit(n, rounds)
    lo = st.sampled_from([1, min(2, ll), max(1, ll - 1), ll])
    hmin, amin = draw(lo), draw(lo)
    smin = draw(st.sampled_from([0, 1, ll - 1, ll]))
    return [hmin, draw(st.sampled_from([hmin, ll])), amin,
            draw(st.sampled_from([amin, ll])), smin,
            draw(st.sampled_from([smin, ll]))]


@st.composite
def hard_settings(draw: Any, n: int, rounds: int) -> list[int]:
    mode = draw(st.sampled_from(["bundled", "small", "free", "free",
                                 "extreme"]))
    if mode == "bundled":
        return bundled_setting(n, rounds)
    if mode == "small":
        return draw(small_setting(n, rounds))
    if mode == "free":
        return draw(free_setting(n, rounds))
    return draw(extreme_setting(n, rounds))


BOUND_CLASS_MIX = ("pattern", "pattern", "uniform", "selfplay", "bye",
                   "perturbed", "daywise")


@st.composite
def bound_cases(draw: Any, sizes: tuple = SIZES) -> dict:
    """Plan cases (as :func:`plan_cases`) biased towards many errors, for the
    target()-driven search of the upper-bound clause."""
    n, rounds = draw(st.sampled_from(sizes))
    cls = draw(st.sampled_from(BOUND_CLASS_MIX))
    return {"n": n, "rounds": rounds, "st": draw(hard_settings(n, rounds)),
            "cls": cls, "plan": draw(plans_of_class(cls, n, rounds)),
            "pre": draw(st.integers(0, 3))}


@st.composite
def climb_cases(draw: Any, sizes: tuple = SIZES) -> dict:
    """Start of a deterministic hill climb towards the largest error count:
    {"n", "rounds", "st", "cls", "plan", "seed", "steps"}."""
    n, rounds = draw(st.sampled_from(sizes))
    cls = draw(st.sampled_from(BOUND_CLASS_MIX))
    return {"n": n, "rounds": rounds, "st": draw(hard_settings(n, rounds)),
            "cls": cls, "plan": draw(plans_of_class(cls, n, rounds)),
            "seed": draw(st.integers(0, 2 ** 32 - 1)),
            "steps": draw(st.sampled_from([50, 200, 600]))}


# ----------------------------------------------------------------------------
# instances with generated distance matrices and team names (C08, C15)
# ----------------------------------------------------------------------------

DIST_CLASSES = ("tiny", "small", "medium", "large", "edge8", "edge16",
                "edge32", "huge")
_EDGES = {"edge8": 127, "edge16": 32767, "edge32": 2 ** 31 - 1}
_NAME_ALPHABET = "abcdefghijklmnopqrstuvwxyzABCDEFGHIJKLMNOPQRSTUVWXYZ" \
                 "0123456789._-@#"


@st.composite
def dist_matrices(draw: Any, n: int, rounds: int) -> dict:
    """{"cls", "sym", "dist"}: non-negative integer matrix with zero
    diagonal and a positive entry in every row (the constructor's rule).

    The storage type of the instance follows ``rounds*n*max(sum of row
    maxima, n)``; the edge classes put that product next to 2^7, 2^15, 2^31.
    Zero distances between different teams occur in all classes."""
    cls = draw(st.sampled_from(DIST_CLASSES))
    sym = draw(st.booleans())
    if cls in _EDGES:
        m0 = _EDGES[cls] // (rounds * n * n)
        top = max(1, m0 + draw(st.integers(-1, 1)))
    else:
        top = {"tiny": 3, "small": 100, "medium": 10 ** 4,
               "large": 10 ** 6, "huge": 10 ** 12}[cls]
        if draw(st.integers(0, 3)) == 0:
            top = draw(st.integers(1, top))
    kind = draw(st.sampled_from(["any", "any", "top_heavy", "constant"]))
    if kind == "constant":
        val = st.just(top)
    elif kind == "top_heavy":
        val = st.sampled_from([0, 1, max(1, top - 1), top, top])
    else:
        val = st.integers(0, top)
    d = [[0] * n for _ in range(n)]
    for i in range(n):
        for j in range(n):
            if i == j or (sym and j < i):
                continue
            d[i][j] = draw(val)
            if sym:
                d[j][i] = d[i][j]
    if cls in _EDGES or kind != "any":
        # every row reaches the maximum, so the sum of row maxima is n*top
        for i in range(n):
            j = (i + 1) % n
            d[i][j] = top
            if sym:
                d[j][i] = top
    for i in range(n):
        if max(d[i]) <= 0:
            j = (i + 1) % n
            d[i][j] = draw(st.integers(1, top))
            if sym:
                d[j][i] = d[i][j]
    return {"cls": cls, "sym": sym, "dist": d}


@st.composite
def team_names(draw: Any, n: int) -> list[str]:
    if draw(st.integers(0, 2)) == 0:
        return [f"T{i + 1}" for i in range(n)]
    return draw(st.lists(st.text(_NAME_ALPHABET, min_size=1, max_size=6),
                         min_size=n, max_size=n, unique=True))


@st.composite
def instance_cases(draw: Any, sizes: tuple = SIZES) -> dict:
    """{"n","rounds","st","dist","teams","name","dcls","sym"}."""
    n, rounds = draw(st.sampled_from(sizes))
    dm = draw(dist_matrices(n, rounds))
    mode = draw(st.sampled_from(["bundled", "small", "free"]))
    sett = bundled_setting(n, rounds) if mode == "bundled" else draw(
        small_setting(n, rounds) if mode == "small"
        else free_setting(n, rounds))
    return {"n": n, "rounds": rounds, "st": sett, "dist": dm["dist"],
            "teams": draw(team_names(n)),
            "name": draw(st.sampled_from(["gen", "g1", "x_y"])),
            "dcls": dm["cls"], "sym": dm["sym"]}


LENGTH_SIZES = SIZES + ((10, 1), (10, 2))
LENGTH_CLASS_MIX = ("uniform", "circle", "circle", "daywise", "daywise",
                    "perturbed", "bye", "bye", "selfplay", "pattern")


@st.composite
def length_cases(draw: Any) -> dict:
    """Case of the C08 travel check: {"inst": instance case, "cls", "plan"}."""
    inst = draw(instance_cases(LENGTH_SIZES))
    cls = draw(st.sampled_from(LENGTH_CLASS_MIX))
    return {"inst": inst, "cls": cls,
            "plan": draw(plans_of_class(cls, inst["n"], inst["rounds"]))}


# ----------------------------------------------------------------------------
# game permutations (C15)
# ----------------------------------------------------------------------------

def n_games(n: int, rounds: int) -> int:
    return rounds * n * (n - 1) // 2


@st.composite
def index_shuffles(draw: Any, length: int) -> list[int]:
    """A permutation of ``range(length)``: uniform for short sequences, a
    drawn start order plus drawn swaps/reversals/rotations for long ones."""
    if length <= 48 and draw(st.integers(0, 3)) != 0:
        return list(draw(st.permutations(list(range(length)))))
    idx = list(range(length))
    start = draw(st.sampled_from(["id", "rev", "stride", "interleave"]))
    if start == "rev":
        idx.reverse()
    elif start == "stride":
        k = draw(st.integers(2, max(2, min(length - 1, 11))))
        idx = [i for s in range(k) for i in range(s, length, k)]
    elif start == "interleave":
        half = length // 2
        a, b = idx[:half], idx[half:]
        idx = [v for pair in zip(a, b) for v in pair] + b[len(a):]
    for _ in range(draw(st.integers(0, 12))):
        i = draw(st.integers(0, length - 1))
        j = draw(st.integers(0, length - 1))
        op = draw(st.integers(0, 2))
        if op == 0:
            idx[i], idx[j] = idx[j], idx[i]
        elif op == 1:
            lo, hi = min(i, j), max(i, j)
            idx[lo:hi + 1] = idx[lo:hi + 1][::-1]
        else:
            idx = idx[i:] + idx[:i]
    return idx


DECODE_SIZES = tuple((n, r) for n in range(2, 11) for r in range(1, 5)
                     if (n, r) != (2, 1))


@st.composite
def decode_cases(draw: Any, sizes: tuple = DECODE_SIZES) -> dict:
    """Case of the C15 decoding check: {"n", "rounds", "shuffle", "garbage"
    [, "inst"]}; the permutation is ``blueprint[shuffle]``. Even ``n`` carry a
    generated instance case (distance matrix, names, setting) for the public
    constructor; odd ``n`` are rejected by it and use the module functions."""
    n, rounds = draw(st.sampled_from(sizes))
    case = {"n": n, "rounds": rounds,
            "shuffle": draw(index_shuffles(n_games(n, rounds))),
            "garbage": draw(st.integers(-n, n))}
    if n % 2 == 0:
        dm = draw(dist_matrices(n, rounds))
        case["inst"] = {"n": n, "rounds": rounds,
                        "st": draw(small_setting(n, rounds)),
                        "dist": dm["dist"], "teams": draw(team_names(n)),
                        "name": "gen"}
    return case


# ----------------------------------------------------------------------------
# building repository objects from cases
# ----------------------------------------------------------------------------

def default_dist(n: int) -> list[list[int]]:
    """Circular distances (as the bundled circ* instances)."""
    return [[min(abs(i - j), n - abs(i - j)) for j in range(n)]
            for i in range(n)]


def build_instance(ic: dict) -> Any:
    """``ttp.Instance`` through the public constructor."""
    import numpy as np
    from moptipyapps.ttp.instance import Instance
    n = int(ic["n"])
    dist = ic.get("dist") or default_dist(n)
    teams = ic.get("teams") or [f"T{i + 1}" for i in range(n)]
    return Instance(ic.get("name", "gen"), np.array(dist, dtype=np.int64),
                    list(teams), int(ic["rounds"]), *map(int, ic["st"]))


def build_plan(inst: Any, plan: list[list[int]], space: Any = None) -> Any:
    """A ``GamePlan`` created by the game plan space and filled verbatim."""
    import numpy as np
    from moptipyapps.ttp.game_plan_space import GamePlanSpace
    if space is None:
        space = GamePlanSpace(inst)
    y = space.create()
    arr = np.array(plan, dtype=np.int64)
    if arr.shape != y.shape:
        raise ValueError(f"plan shape {arr.shape} vs space {y.shape}")
    y[:, :] = arr
    return y


def plan_of(y: Any) -> list[list[int]]:
    return [[int(v) for v in row] for row in y]
