#!/venv/bin/python
"""Create a mutant patch: tools/mkmutant.py CNN name relative/file.py OLD NEW [--count N]

OLD must occur exactly once (or N times with --count) in /repo/<file>; the unified
diff (a/..., b/...) is written to mutation/patches/CNN_name.diff.
"""
import difflib, os, sys
args = sys.argv[1:]
count = 1
if "--count" in args:
    i = args.index("--count"); count = int(args[i + 1]); del args[i:i + 2]
pid, name, rel, old, new = args
repo = os.environ.get("MUT_BASE", "/repo")
src = open(os.path.join(repo, rel), encoding="utf-8").read()
old = old.encode().decode("unicode_escape") if "\\n" in old else old
new = new.encode().decode("unicode_escape") if "\\n" in new else new
if src.count(old) != count:
    sys.exit(f"OLD occurs {src.count(old)} times in {rel}, expected {count}")
dst = src.replace(old, new)
diff = "".join(difflib.unified_diff(src.splitlines(True), dst.splitlines(True),
                                    "a/" + rel, "b/" + rel))
out = os.path.join(os.path.dirname(os.path.dirname(os.path.abspath(__file__))),
                   "mutation", "patches", f"{pid}_{name}.diff")
open(out, "w", encoding="utf-8").write(diff)
print(out)
