#!/venv/bin/python
"""Run the checks against the mutant patches: tools/mutants.py CNN [pattern] [--tier quick]

For every mutation/patches/CNN_*.diff: copy /repo/moptipyapps to a scratch
directory, apply the patch, run `VERIF_REPO=<copy> ./check CNN <tier>` and
record the exit code in mutation/CNN.json (fields breaks_property / note of an
existing record are kept). The scratch copy is removed afterwards.
"""
import glob, json, os, shutil, subprocess, sys, tempfile, time
VERIF = os.path.dirname(os.path.dirname(os.path.abspath(__file__)))
args = sys.argv[1:]
tier = "quick"
if "--tier" in args:
    i = args.index("--tier"); tier = args[i + 1]; del args[i:i + 2]
pid = args[0].upper()
pat = args[1] if len(args) > 1 else ""
path = os.path.join(VERIF, "mutation", f"{pid}.json")
records = {r["mutant"]: r for r in (json.load(open(path)) if os.path.exists(path) else [])}
for diff in sorted(glob.glob(os.path.join(VERIF, "mutation", "patches", f"{pid}_*{pat}*.diff"))):
    name = os.path.basename(diff)[len(pid) + 1:-5]
    tmp = tempfile.mkdtemp(prefix="vf_mut_")
    try:
        for sub in ("moptipyapps", "examples"):
            shutil.copytree(os.path.join("/repo", sub), os.path.join(tmp, sub),
                            ignore=shutil.ignore_patterns("__pycache__"))
        r = subprocess.run(["patch", "-p1", "-s", "-i", diff], cwd=tmp, capture_output=True, text=True)
        if r.returncode != 0:
            print(f"{name}: PATCH FAILED {r.stdout} {r.stderr}"); continue
        t0 = time.time()
        env = dict(os.environ, VERIF_REPO=tmp, VERIF_CACHE=os.path.join(tmp, "cache"))
        r = subprocess.run(["./check", pid, tier], cwd=VERIF, env=env, capture_output=True, text=True)
        rec = records.get(name, {"mutant": name, "breaks_property": True})
        rec.update({"patch": os.path.relpath(diff, VERIF), "exit": r.returncode,
                    "killed": r.returncode == 1, "tier": tier, "wall_s": round(time.time() - t0, 1)})
        viol = [l for l in r.stdout.splitlines() if not l.startswith("VIOLATION") and l.startswith("  ")]
        if viol:
            rec["first_violation"] = viol[0].strip()[:300]
        if r.returncode == 2:
            rec["harness_error"] = (r.stdout + r.stderr)[-1500:]
        records[name] = rec
        verdict = "killed" if rec["killed"] else ("HARNESS-ERROR" if r.returncode == 2 else "survived")
        ok = (rec["killed"] == bool(rec.get("breaks_property", True)))
        print(f"{pid} {name}: {verdict} ({rec['wall_s']}s){'' if ok else '   <-- UNEXPECTED'}")
    finally:
        shutil.rmtree(tmp, ignore_errors=True)
json.dump(sorted(records.values(), key=lambda r: r["mutant"]), open(path, "w"), indent=1)
