#!/venv/bin/python
"""Seeded changes (written by independent sub-agents) vs. the checks.

  tools/seeded.py ingest CNN K [--tests "tests/a tests/b"]
      take /tmp/seed/out/CNN/K/{patch.diff,demo.py,notes.md}, confirm in a
      scratch copy of /repo that (1) the patch applies to HEAD, (2) demo.py
      exits 0 without and non-zero with the patch, (3) the named test files
      still pass with the patch; on success store it as seeded/CNN-K/.
  tools/seeded.py run [CNN-K ...] [--tier quick] [--also C13,C12]
      apply each stored patch to a scratch copy of /repo and run the check of
      its property (plus --also) with VERIF_REPO=<copy>; record the outcome
      in seeded/<id>/meta.json.
Scratch copies live in tempfile.mkdtemp() and are removed afterwards.
"""
import json
import os
import shutil
import subprocess
import sys
import tempfile
import time

VERIF = os.path.dirname(os.path.dirname(os.path.abspath(__file__)))
SEEDED = os.path.join(VERIF, "seeded")
PY = "/venv/bin/python"


def scratch_copy() -> str:
    tmp = tempfile.mkdtemp(prefix="vf_seed_")
    for sub in ("moptipyapps", "examples", "tests"):
        shutil.copytree(os.path.join("/repo", sub), os.path.join(tmp, sub),
                        ignore=shutil.ignore_patterns("__pycache__"))
    for f in ("conftest.py", "setup.cfg", "pyproject.toml"):
        if os.path.exists(os.path.join("/repo", f)):
            shutil.copy(os.path.join("/repo", f), tmp)
    return tmp


def env_for(tmp: str) -> dict:
    return dict(os.environ, PYTHONPATH=tmp, PYTHONHASHSEED="0",
                NUMBA_CACHE_DIR=os.path.join(tmp, ".numba"),
                PYTHONDONTWRITEBYTECODE="1")


def run_demo(tmp: str, demo: str) -> int:
    shutil.rmtree(os.path.join(tmp, ".numba"), ignore_errors=True)
    r = subprocess.run([PY, demo], cwd=tmp, env=env_for(tmp),
                       capture_output=True, text=True, timeout=900)
    return r.returncode


def ingest(pid: str, k: str, tests: list[str], rnd: int = 1) -> int:
    src = os.path.join("/tmp/seed/out" if rnd == 1 else f"/tmp/seed/out{rnd}",
                       pid, k)
    if rnd > 1:  # round r, change k is stored as CNN-<2(r-1)+k>
        k = str(2 * (rnd - 1) + int(k))
    patch = os.path.join(src, "patch.diff")
    demo = os.path.join(src, "demo.py")
    if not (os.path.exists(patch) and os.path.exists(demo)):
        print(f"{pid}-{k}: missing patch.diff / demo.py in {src}")
        return 1
    tmp = scratch_copy()
    meta = {"property": pid, "id": f"{pid}-{k}", "round": rnd, "ingested": time.strftime(
        "%Y-%m-%d %H:%M"), "base_commit": subprocess.check_output(
        ["git", "-C", "/repo", "rev-parse", "--short", "HEAD"],
        text=True).strip()}
    try:
        shutil.copy(demo, os.path.join(tmp, "_demo.py"))
        clean = run_demo(tmp, "_demo.py")
        r = subprocess.run(["patch", "-p1", "-s", "-i", patch], cwd=tmp,
                           capture_output=True, text=True)
        if r.returncode != 0:
            print(f"{pid}-{k}: patch does not apply: {r.stdout}{r.stderr}")
            return 1
        bad = run_demo(tmp, "_demo.py")
        meta["demo_exit_clean"], meta["demo_exit_patched"] = clean, bad
        if clean != 0 or bad == 0:
            print(f"{pid}-{k}: demo does not discriminate: clean={clean} "
                  f"patched={bad}")
            return 1
        ran = []
        for t in tests:
            r = subprocess.run(
                [PY, "-m", "pytest", *t.split(), "-q", "-p",
                 "no:cacheprovider",
                 "--timeout=900", "-x"], cwd=tmp, env=env_for(tmp),
                capture_output=True, text=True)
            tail = r.stdout.strip().splitlines()[-1] if r.stdout.strip() \
                else ""
            ran.append({"cmd": f"pytest {t}", "exit": r.returncode,
                        "summary": tail})
            if r.returncode != 0:
                print(f"{pid}-{k}: existing tests FAIL with the patch: {t}: "
                      f"{tail}")
                meta["tests"] = ran
                return 1
        meta["tests"] = ran
    finally:
        shutil.rmtree(tmp, ignore_errors=True)
    dst = os.path.join(SEEDED, f"{pid}-{k}")
    os.makedirs(dst, exist_ok=True)
    shutil.copy(patch, os.path.join(dst, "patch.diff"))
    shutil.copy(demo, os.path.join(dst, "demo.py"))
    notes = os.path.join(src, "notes.md")
    if os.path.exists(notes):
        shutil.copy(notes, os.path.join(dst, "notes.md"))
        with open(notes, encoding="utf-8") as f:
            meta["needs_to_manifest"] = f.read()[:1500]
    meta["what_was_run"] = ("demo.py on a clean scratch copy of /repo (exit 0)"
                            " and on the patched copy (exit != 0); the listed "
                            "pytest commands on the patched copy")
    with open(os.path.join(dst, "meta.json"), "w", encoding="utf-8") as f:
        json.dump(meta, f, indent=1)
    print(f"{pid}-{k}: ingested ({len(tests)} test commands pass)")
    return 0


def run(ids: list[str], tier: str, also: list[str]) -> int:
    if not ids:
        ids = sorted(d for d in os.listdir(SEEDED)
                     if os.path.isdir(os.path.join(SEEDED, d)))
    for sid in ids:
        d = os.path.join(SEEDED, sid)
        with open(os.path.join(d, "meta.json"), encoding="utf-8") as f:
            meta = json.load(f)
        tmp = scratch_copy()
        try:
            r = subprocess.run(["patch", "-p1", "-s", "-i",
                                os.path.join(d, "patch.diff")], cwd=tmp,
                               capture_output=True, text=True)
            if r.returncode != 0:
                print(f"{sid}: patch no longer applies")
                continue
            det = meta.setdefault("detection", {})
            for pid in [meta["property"], *also]:
                t0 = time.time()
                env = dict(os.environ, VERIF_REPO=tmp,
                           VERIF_CACHE=os.path.join(tmp, "cache"),
                           VERIF_OUT=os.path.join(tmp, "out"))
                r = subprocess.run(["./check", pid, tier], cwd=VERIF, env=env,
                                   capture_output=True, text=True)
                # keep the (shrunk) failing input of the property's own check
                vdir = os.path.join(tmp, "out", "violations", pid)
                if r.returncode == 1 and pid == meta["property"] \
                        and os.path.isdir(vdir):
                    files = sorted(
                        (os.path.getsize(os.path.join(vdir, f)), f)
                        for f in os.listdir(vdir) if f.endswith(".json"))
                    if files and files[0][0] < 200_000:
                        shutil.copy(os.path.join(vdir, files[0][1]),
                                    os.path.join(d, "replay.json"))
                first = [ln.strip() for ln in r.stdout.splitlines()
                         if ln.startswith("  ")]
                det[f"{pid}/{tier}"] = {
                    "exit": r.returncode, "detected": r.returncode == 1,
                    "wall_s": round(time.time() - t0, 1),
                    "first_violation": first[0][:300] if first else "",
                    "at": time.strftime("%Y-%m-%d %H:%M")}
                print(f"{sid}: {pid}/{tier} -> "
                      f"{'DETECTED' if r.returncode == 1 else 'exit ' + str(r.returncode)}"
                      f" ({det[f'{pid}/{tier}']['wall_s']}s)")
                if r.returncode == 2:
                    print(r.stdout[-1500:])
            with open(os.path.join(d, "meta.json"), "w",
                      encoding="utf-8") as f:
                json.dump(meta, f, indent=1)
        finally:
            shutil.rmtree(tmp, ignore_errors=True)
    return 0


def main() -> int:
    a = sys.argv[1:]
    if not a:
        print(__doc__)
        return 2
    if a[0] == "ingest":
        tests: list[str] = []
        if "--tests" in a:
            i = a.index("--tests")
            tests = [t.strip() for t in a[i + 1].split(",") if t.strip()]
            del a[i:i + 2]
        rnd = 1
        if "--round" in a:
            i = a.index("--round")
            rnd = int(a[i + 1])
            del a[i:i + 2]
        return ingest(a[1], a[2], tests, rnd)
    if a[0] == "run":
        tier = "quick"
        also: list[str] = []
        if "--tier" in a:
            i = a.index("--tier")
            tier = a[i + 1]
            del a[i:i + 2]
        if "--also" in a:
            i = a.index("--also")
            also = a[i + 1].split(",")
            del a[i:i + 2]
        return run(a[1:], tier, also)
    return 2


if __name__ == "__main__":
    sys.exit(main())
