#!/venv/bin/python
"""Regenerate the result tables of DESIGN.md (sections 6b and 6c) from
mutation/*.json and seeded/*/meta.json + seeded/descriptions.json.

The text between the markers <!-- BEGIN GENERATED RESULTS --> and
<!-- END GENERATED RESULTS --> is replaced.
"""
import glob
import json
import os

VERIF = os.path.dirname(os.path.dirname(os.path.abspath(__file__)))
BEGIN, END = "<!-- BEGIN GENERATED RESULTS -->", "<!-- END GENERATED RESULTS -->"


def mutation_table() -> str:
    rows = ["| property | mutants | break the property | killed (quick) | "
            "false-alarm probes staying green | survivors that break the "
            "property |", "|---|---|---|---|---|---|"]
    tot = [0, 0, 0, 0]
    for f in sorted(glob.glob(os.path.join(VERIF, "mutation", "C*.json"))):
        recs = json.load(open(f, encoding="utf-8"))
        pid = os.path.basename(f)[:-5]
        brk = [r for r in recs if r.get("breaks_property", True)]
        killed = [r for r in brk if r.get("killed")]
        probes = [r for r in recs if not r.get("breaks_property", True)]
        green = [r for r in probes if not r.get("killed")]
        surv = [r["mutant"] for r in brk if not r.get("killed")]
        rows.append(f"| {pid} | {len(recs)} | {len(brk)} | {len(killed)} | "
                    f"{len(green)}/{len(probes)} | "
                    f"{', '.join(surv) if surv else '-'} |")
        tot[0] += len(recs)
        tot[1] += len(brk)
        tot[2] += len(killed)
        tot[3] += len(green)
    rows.append(f"| **all** | {tot[0]} | {tot[1]} | {tot[2]} | {tot[3]} | |")
    return "\n".join(rows)


def seeded_table() -> str:
    desc = json.load(open(os.path.join(VERIF, "seeded", "descriptions.json"),
                          encoding="utf-8"))
    rows = ["| id | change | needs to manifest | detected by (final "
            "machinery, quick tier) | first evaluation |",
            "|---|---|---|---|---|"]
    n = det = missed_first = 0
    def natural(path: str) -> tuple:
        sid = os.path.basename(os.path.dirname(path))
        return sid.split("-")[0], int(sid.split("-")[1])

    for d in sorted(glob.glob(os.path.join(VERIF, "seeded", "*",
                                           "meta.json")), key=natural):
        m = json.load(open(d, encoding="utf-8"))
        sid = m["id"]
        what, needs, hist = desc.get(sid, ["?", "?", ""])
        dets = []
        for k, v in m.get("detection", {}).items():
            if v.get("detected"):
                fv = v.get("first_violation", "")
                sub = fv.split(":", 1)[0] if ":" in fv else ""
                dets.append(f"{k.split('/')[0]}" + (f" ({sub})" if sub and
                                                    len(sub) < 30 else ""))
        n += 1
        own = any(k.startswith(m["property"] + "/") and v.get("detected")
                  for k, v in m.get("detection", {}).items())
        det += 1 if own else 0
        if hist:
            missed_first += 1
        rows.append(f"| {sid} | {what} | {needs} | "
                    f"{', '.join(dets) if dets else '**not detected**'} | "
                    f"{hist or 'detected'} |")
    undet = sum(1 for v in desc.values() if v[2].startswith("NOT DETECTED"))
    head = (f"{n} seeded changes (seven rounds: two per property in rounds 1 "
            f"and 2, two each for the 15 properties with a round-2 miss in "
            f"round 3, for the 13 properties with a round-3 miss in round "
            f"4 and for eight properties - those with a round-4 miss plus "
            f"C03 and C07 - in round 5, one each for the four properties with the fewest changes, C01 C08 C14 C16, in round 6 and for C02 C04 C20 in round 7); {det} are detected by the check of their own "
            f"property at the quick tier with the final machinery; "
            f"{missed_first - undet} were missed (or only caught by another "
            f"property's check, or hung the check) when first evaluated and "
            f"led to the strengthening named in the last column; {undet} "
            f"stay undetected for the reason given there.\n\n")
    return head + "\n".join(rows)


def main() -> None:
    path = os.path.join(VERIF, "DESIGN.md")
    s = open(path, encoding="utf-8").read()
    body = (f"{BEGIN}\n\n### 6b. Mutation results (tools/mutants.py, quick "
            "tier, mutant applied to a scratch copy)\n\n" + mutation_table()
            + "\n\n### 6c. Seeded changes written by independent sub-agents "
            "(tools/seeded.py)\n\n" + seeded_table() + f"\n\n{END}")
    if BEGIN in s:
        i, j = s.index(BEGIN), s.index(END) + len(END)
        s = s[:i] + body + s[j:]
    else:
        marker = ("-----------------------------------------------------------"
                  "---------------\n\n## 7. Limits")
        i = s.index(marker)
        s = s[:i] + body + "\n\n" + s[i:]
    open(path, "w", encoding="utf-8").write(s)
    print("DESIGN.md updated")


if __name__ == "__main__":
    main()
