#!/venv/bin/python
"""Regenerate /verif/MANIFEST.json from the property modules that exist.

Per-property texts live in tools/manifest_texts.json (technique, level text,
level note, design ref). A property without a module under vf/props is listed
under not_applicable with the reason given there (or 'check not built yet').
"""
import json
import os
import sys

HERE = os.path.dirname(os.path.abspath(__file__))
VERIF = os.path.dirname(HERE)
IDS = [f"C{i:02d}" for i in range(1, 21)]


def read_meta(pid: str) -> dict:
    """The literal META dict of vf/props/<pid>.py (may carry 'technique',
    'level_text', 'level_note')."""
    import ast
    path = os.path.join(VERIF, "vf", "props", f"{pid.lower()}.py")
    if not os.path.exists(path):
        return {}
    with open(path, encoding="utf-8") as f:
        tree = ast.parse(f.read())
    for node in tree.body:
        if isinstance(node, ast.Assign) and len(node.targets) == 1 \
                and getattr(node.targets[0], "id", None) == "META":
            meta = ast.literal_eval(node.value)
            return {k: v for k, v in meta.items()
                    if k in ("technique", "level_text", "level_note")}
    return {}


def main() -> int:
    with open(os.path.join(HERE, "manifest_texts.json"),
              encoding="utf-8") as f:
        texts = json.load(f)
    with open(os.path.join(HERE, "registered.json"), encoding="utf-8") as f:
        registered = set(json.load(f))  # checks accepted by the lead
    checks = []
    na = []
    for pid in IDS:
        t = dict(texts.get(pid, {}))
        t.update(read_meta(pid))
        have = os.path.exists(
            os.path.join(VERIF, "vf", "props", f"{pid.lower()}.py")) \
            and pid in registered
        if have and not t.get("not_applicable"):
            checks.append({
                "property_id": pid,
                "quick_cmd": f"./check {pid} quick",
                "thorough_cmd": f"./check {pid} thorough",
                "evidence_file": f"evidence/{pid}.json",
                "replay_cmd_template": "./check --replay {path}",
                "engine": "vf",
                "level_claimed": {
                    "category": "exploration",
                    "text": t.get("level_text", "generated-input search "
                                  "against an independent oracle"),
                    "design_ref": f"DESIGN.md section 4, {pid}",
                },
                "level_note": t.get("level_note", ""),
                "technique": t.get("technique", "property-based testing "
                                   "(Hypothesis) against an independent "
                                   "oracle"),
            })
        else:
            na.append({"property_id": pid, "reason": t.get(
                "not_applicable", "check not built yet (work in progress); "
                "the property is planned as a Hypothesis check, see DESIGN.md "
                "section 4")})
    manifest = {
        "version": 1,
        "setup_cmd": "/venv/bin/pip install --no-index --find-links "
                     "/opt/veriftools/wheels hypothesis >/dev/null 2>&1; "
                     "/venv/bin/pip install --no-index --find-links "
                     "/opt/veriftools/wheels --target .deps atheris "
                     ">/dev/null 2>&1; "
                     "/venv/bin/python -c 'import hypothesis, numba, numpy'",
        "hooks": {
            "guard": "THOMASWEISE_MOPTIPYAPPS_VERIF",
            "enable": "no source hooks exist: the checks import /repo's "
                      "working tree directly (VERIF_REPO first on sys.path) "
                      "and use numba's own NUMBA_BOUNDSCHECK switch for C13; "
                      "./check exports THOMASWEISE_MOPTIPYAPPS_VERIF=1 but no "
                      "repository code reads it",
            "baseline_off_cmd": "cd /repo && /venv/bin/python -m pytest -ra "
                                "-q -p no:cacheprovider --timeout=900 "
                                "--continue-on-collection-errors",
            "source_commits": [],
            "add_only": True,
        },
        "engines": [{
            "name": "vf",
            "path": "vf/",
            "serves_properties": [c["property_id"] for c in checks],
            "kind_free_text": "Hypothesis-driven property-based testing and "
                              "atheris/libFuzzer coverage-guided fuzzing of "
                              "the text parsers "
                              "(strategies, rule-based state machines, "
                              "target()), exhaustive enumeration of small "
                              "finite sub-domains, independent Python oracles; "
                              "sharded over 16 processes",
        }],
        "checks": checks,
        "not_applicable": na,
        "notes": "Every check is ./check <ID> <tier>; exit 0/1/2 = held / "
                 "VIOLATION / harness error. VERIF_SEED selects the "
                 "Hypothesis seeds. Shrunk failures are written to "
                 "out/violations/<ID>/ and re-run with ./check --replay. "
                 "known_findings.json lists open findings and fixed: records; "
                 "replays/<ID>/ holds committed regression inputs.",
    }
    with open(os.path.join(VERIF, "MANIFEST.json"), "w",
              encoding="utf-8") as f:
        json.dump(manifest, f, indent=1)
        f.write("\n")
    print(f"{len(checks)} checks, {len(na)} not_applicable")
    return 0


if __name__ == "__main__":
    sys.exit(main())
