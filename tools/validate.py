#!/opt/veriftools/pyvenv/bin/python
"""Validate MANIFEST.json and all evidence files against the schemas (run with python3-vt)."""
import glob, json, sys
import jsonschema
bad = 0
m = json.load(open('/verif/MANIFEST.json'))
jsonschema.validate(m, json.load(open('/root/.vp/MANIFEST.schema.json')))
es = json.load(open('/root/.vp/EVIDENCE.schema.json'))
for c in m['checks']:
    p = '/verif/' + c['evidence_file']
    try:
        jsonschema.validate(json.load(open(p)), es)
    except Exception as e:  # noqa
        bad += 1
        print('BAD', p, str(e)[:300])
print('manifest ok;', len(m['checks']), 'checks;', bad, 'bad evidence files')
sys.exit(1 if bad else 0)
