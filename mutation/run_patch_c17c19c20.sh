#!/bin/bash
# usage: mutation/run_patch_c17c19c20.sh CNN mutation/patches/CNN_name.diff [seed]
# Applies the patch to a scratch copy of the package, runs the quick check
# against it, prints the exit code, removes the copy.
set -u
HERE="$(cd "$(dirname "${BASH_SOURCE[0]}")/.." && pwd)"
PROP="$1"; PATCH="$(realpath "$2")"; SEED="${3:-1}"
D="$(mktemp -d)"
trap 'rm -rf "$D"' EXIT
cp -r "${VERIF_BASE_REPO:-/repo}/moptipyapps" "$D/"
find "$D" -name __pycache__ -type d -prune -exec rm -rf {} +
(cd "$D" && patch -p1 --quiet < "$PATCH") || { echo "PATCH-FAILED"; exit 3; }
cd "$HERE" && VERIF_SEED="$SEED" VERIF_REPO="$D" ./check "$PROP" quick
rc=$?
echo "mutant $(basename "$PATCH") seed=$SEED exit=$rc"
exit $rc
