#!/venv/bin/python
"""Sensitivity self-test for the bin-packing checks C02, C03, C04, C14.

Usage: mutation/run_bp_mutants.py CNN [mutant-name ...]

Every mutant is a textual replacement in a scratch copy of the package
(``tempfile.mkdtemp``, removed afterwards). The unified diff is written to
mutation/patches/CNN_<name>.diff (paths a/moptipyapps/..., usable with
``patch -p1``), the check is run at the quick tier with VERIF_REPO pointing to
the copy, and the results are written to mutation/CNN.json.
"""
from __future__ import annotations

import difflib
import json
import os
import shutil
import subprocess
import sys
import tempfile
import time

HERE = os.path.dirname(os.path.abspath(__file__))
VERIF = os.path.dirname(HERE)
REPO = "/repo"
BP = "moptipyapps/binpacking2d/"

# (name, file, old, new, breaks_property, note[, count])
MUTANTS: dict[str, list[tuple]] = {
    "C02": [
        ("last_skyline_no_next_left", BP + "objectives/"
         "bin_count_and_last_skyline.py",
         "        use_right = min(use_right, next_left)\n", "", True,
         "skyline sweep ignores boxes starting inside the current step"),
        ("lowest_skyline_no_next_left", BP + "objectives/"
         "bin_count_and_lowest_skyline.py",
         "            use_right = min(use_right, next_left)\n", "", True,
         "same for the lowest-skyline objective"),
        ("to_bin_count_floor_items", BP + "objectives/"
         "bin_count_and_last_empty.py",
         "return ceil_div(z, self._instance.n_items)",
         "return z // self._instance.n_items", True,
         "floor instead of ceil in to_bin_count (item scale)"),
        ("to_bin_count_floor_area", BP + "objectives/"
         "bin_count_and_last_small.py",
         "return ceil_div(z, self._bin_size)",
         "return z // self._bin_size", True,
         "floor instead of ceil in to_bin_count (area scale)"),
        ("scale_n_different_items", BP + "objectives/"
         "bin_count_and_last_empty.py",
         "return ceil_div(z, self._instance.n_items)",
         "return ceil_div(z, self._instance.n_different_items)", True,
         "n_different_items instead of n_items as scale"),
        ("last_empty_bins_not_minus_1", BP + "objectives/"
         "bin_count_and_last_empty.py",
         "return (n_items * (current_bin - 1)) + current_size",
         "return (n_items * current_bin) + current_size", True,
         "current_bin - 1 -> current_bin"),
        ("last_small_bins_not_minus_1", BP + "objectives/"
         "bin_count_and_last_small.py",
         "return (bin_area * (current_bin - 1)) + current_area",
         "return (bin_area * current_bin) + current_area", True,
         "current_bin - 1 -> current_bin (area)"),
        ("empty_no_clear", BP + "objectives/bin_count_and_empty.py",
         "    temp.fill(0)  # empty all temporary values\n", "", True,
         "scratch array of BinCountAndEmpty not cleared"),
        ("small_no_clear", BP + "objectives/bin_count_and_small.py",
         "    temp.fill(0)  # fill temp with zeros\n", "", True,
         "scratch array of BinCountAndSmall not cleared"),
        ("last_small_skip_equal", BP + "objectives/"
         "bin_count_and_last_small.py",
         "        if bin_idx < current_bin:\n",
         "        if bin_idx <= current_bin:\n", True,
         "only the first item of the last bin is counted"),
        ("last_skyline_ge_top", BP + "objectives/"
         "bin_count_and_last_skyline.py",
         "if left <= cur_left < right and top > use_top:",
         "if left <= cur_left < right and top >= use_top:", False,
         "tie between equally high boxes resolved differently: same "
         "skyline (false-alarm probe)"),
        ("upper_bound_items_tight", BP + "objectives/"
         "bin_count_and_last_empty.py",
         "return self._instance.n_items * self._instance.n_items",
         "return self._instance.n_items * (self._instance.n_items - 1)",
         True, "upper bound too small for one-item-per-bin layouts"),
    ],
    "C03": [
        ("q_range_plus_2", BP + "instance.py",
         "for q in range((bin_height // 2) + 1))",
         "for q in range((bin_height // 2) + 2))", True,
         "q beyond half the bin height"),
        ("no_orientation_swap", BP + "instance.py",
         "    if bin_height > bin_width:\n"
         "        bin_width, bin_height = bin_height, bin_width\n"
         "    j_sq", "    j_sq", True,
         "bound computed for tall bins without normalising the orientation"),
        ("geo_floor", BP + "instance.py",
         "        if (lower_bound_geo * bin_area) < item_area:\n"
         "            lower_bound_geo += 1\n", "", True,
         "floor in the geometric bound"),
        ("s1_ge", BP + "instance.py",
         "        if l_i > width_m_q:", "        if l_i >= width_m_q:", True,
         "> -> >= in the S1 threshold"),
        ("s2_ge_half", BP + "instance.py",
         "        elif l_i > half_width:", "        elif l_i >= half_width:",
         True, ">= in the S2 threshold: two half-width squares share a bin"),
        ("b_ceil_plus_1", BP + "instance.py",
         "        if (b * bin_size) < denom:\n            b = b + 1\n",
         "        b = b + 1\n", True,
         "area term of L(q) always rounded up by one more"),
    ],
    "C04": [
        ("no_instance_check", BP + "packing_space.py",
         "        if inst is not x.instance:", "        if False:", True,
         "foreign instance accepted"),
        ("no_dtype_check", BP + "packing_space.py",
         "        if inst.dtype is not x.dtype:", "        if False:", True,
         "wrong dtype accepted"),
        ("no_id_low", BP + "packing_space.py",
         "if (item_id <= 0) or (item_id > inst.n_different_items):",
         "if item_id > inst.n_different_items:", True,
         "id <= 0 accepted (negative index wraps around)"),
        ("no_id_high", BP + "packing_space.py",
         "if (item_id <= 0) or (item_id > inst.n_different_items):",
         "if item_id <= 0:", True, "id > n accepted or IndexError"),
        ("no_bin_low", BP + "packing_space.py",
         "if (bin_id <= 0) or (bin_id > inst.n_items):",
         "if bin_id > inst.n_items:", False,
         "equivalent: a bin id <= 0 makes min(bins) != 1, which the "
         "contiguity clause rejects (false-alarm probe)"),
        ("no_bin_high", BP + "packing_space.py",
         "if (bin_id <= 0) or (bin_id > inst.n_items):",
         "if bin_id <= 0:", False,
         "equivalent: a bin id > n_items always leaves a gap that the "
         "contiguity clause rejects (false-alarm probe)"),
        ("no_degenerate", BP + "packing_space.py",
         "if (x_left >= x_right) or (y_bottom >= y_top):", "if False:",
         False, "equivalent: a degenerate rectangle never has the item's "
         "(positive) dimensions, the dimension clause rejects it "
         "(false-alarm probe)"),
        ("no_outside_low", BP + "packing_space.py",
         "if (x_left < 0) or (y_bottom < 0) or (x_right > bin_width) \\\n"
         "                    or (y_top > bin_height):",
         "if (x_right > bin_width) \\\n"
         "                    or (y_top > bin_height):", True,
         "negative coordinates accepted"),
        ("no_outside_high", BP + "packing_space.py",
         "if (x_left < 0) or (y_bottom < 0) or (x_right > bin_width) \\\n"
         "                    or (y_top > bin_height):",
         "if (x_left < 0) or (y_bottom < 0):", True,
         "boxes beyond the right/top wall accepted"),
        ("dims_and", BP + "packing_space.py",
         "and ((real_width != height) or (real_height != width)):",
         "and ((real_width != height) and (real_height != width)):", True,
         "defect F1 re-introduced"),
        ("no_dims", BP + "packing_space.py",
         "            if ((real_width != width) or (real_height != height)) "
         "\\\n", "            if False \\\n", True,
         "dimension clause deleted"),
        ("no_overlap", BP + "packing_space.py",
         "                if (x_left_2 < x_right) and (x_right_2 > x_left) \\\n",
         "                if False and (x_right_2 > x_left) \\\n", True,
         "overlap clause deleted"),
        ("overlap_touching", BP + "packing_space.py",
         "                if (x_left_2 < x_right) and (x_right_2 > x_left) \\\n",
         "                if (x_left_2 <= x_right) and (x_right_2 > x_left) "
         "\\\n", True, "touching boxes reported as overlapping"),
        ("no_multiplicity", BP + "packing_space.py",
         "            if should != count:", "            if False:", True,
         "multiplicity clause deleted"),
        ("no_contiguity", BP + "packing_space.py",
         "if (min_bin != 1) or ((max_bin - min_bin + 1) != bin_count):",
         "if False:", True, "bin-id gaps accepted"),
        ("no_min_bin", BP + "packing_space.py",
         "if (min_bin != 1) or ((max_bin - min_bin + 1) != bin_count):",
         "if (max_bin - min_bin + 1) != bin_count:", True,
         "bins starting at 2 accepted"),
        ("no_nbins_type", BP + "packing_space.py",
         "        if not isinstance(x.n_bins, int):", "        if False:",
         True, "n_bins of a non-int type accepted when it compares equal"),
        ("no_nbins", BP + "packing_space.py",
         "        if x.n_bins != bin_count:", "        if False:", True,
         "wrong n_bins accepted"),
        ("no_shape", BP + "packing_space.py",
         "        if x.shape != needed_shape:", "        if False:", True,
         "wrong shape accepted / IndexError"),
        ("bin_limit_1e9", BP + "packing_space.py",
         "inst.bin_width, \"bin_width\", 1, 1_000_000_000_000)",
         "inst.bin_width, \"bin_width\", 1, 1_000_000_000)", True,
         "defect F2 re-introduced (width)"),
        ("from_str_no_validate", BP + "packing_space.py",
         "        x.n_bins = int(x[:, IDX_BIN].max())\n"
         "        self.validate(x)\n",
         "        x.n_bins = int(x[:, IDX_BIN].max())\n", True,
         "from_str does not validate"),
        ("from_str_nbins_count", BP + "packing_space.py",
         "        x.n_bins = int(x[:, IDX_BIN].max())\n        self.validate",
         "        x.n_bins = len(set(x[:, IDX_BIN].tolist()))\n"
         "        self.validate", False,
         "n_bins from the number of distinct ids: same verdicts "
         "(false-alarm probe)"),
    ],
    "C14": [
        ("left_before_down", BP + "encodings/ibl_encoding_1.py",
         "        while __move_down(y, bin_start, i) or "
         "__move_left(y, bin_start, i):",
         "        while __move_left(y, bin_start, i) or "
         "__move_down(y, bin_start, i):", True,
         "left moves take precedence (encoding 1)"),
        ("left_before_down_2", BP + "encodings/ibl_encoding_2.py",
         "            while __move_down(y, item_bin, int(bin_start), "
         "int(bin_end), i) \\\n"
         "                    or __move_left(y, item_bin, int(bin_start),\n"
         "                                   int(bin_end), i):",
         "            while __move_left(y, item_bin, int(bin_start), "
         "int(bin_end), i) \\\n"
         "                    or __move_down(y, item_bin, int(bin_start),\n"
         "                                   int(bin_end), i):", True,
         "left moves take precedence (encoding 2)"),
        ("no_support_stop", BP + "encodings/ibl_encoding_1.py",
         "            if packing[i0, IDX_TOP_Y] == packing_i1_bottom_y:",
         "            if False:", True,
         "left move not stopped at the end of the supporting box (enc 1)"),
        ("no_support_stop_2", BP + "encodings/ibl_encoding_2.py",
         "            if packing[i0, IDX_TOP_Y] == packing_i1_bottom_y:",
         "            if False:", True,
         "left move not stopped at the end of the supporting box (enc 2)"),
        ("enc2_next_fit", BP + "encodings/ibl_encoding_2.py",
         "        for item_bin in range(1, bin_id + 1):",
         "        for item_bin in range(bin_id, bin_id + 1):", True,
         "first-fit -> next-fit in encoding 2"),
        ("start_left", BP + "encodings/ibl_encoding_1.py",
         "        y[i, IDX_LEFT_X] = bin_width - w  # the left end\n"
         "        y[i, IDX_BOTTOM_Y] = bin_height  # object sits on top of "
         "bin\n"
         "        y[i, IDX_RIGHT_X] = bin_width  # object ends at right end "
         "of bin\n",
         "        y[i, IDX_LEFT_X] = 0  # the left end\n"
         "        y[i, IDX_BOTTOM_Y] = bin_height  # object sits on top of "
         "bin\n"
         "        y[i, IDX_RIGHT_X] = w  # object ends at right end "
         "of bin\n", True, "drop from the top-left corner"),
        ("enc2_stale_bin_end", BP + "encodings/ibl_encoding_2.py",
         "                bin_ends[item_bin - 1] = i + 1  # index after last "
         "item in bin\n", "", True,
         "bin window of encoding 2 not extended: later items ignore "
         "earlier ones"),
        ("enc2_no_reset_bin_end", BP + "encodings/ibl_encoding_2.py",
         ["    bin_starts[0] = 0\n    bin_ends[0] = 0\n",
          "        self.__bin_ends: Final[np.ndarray] = np.empty("],
         ["    bin_starts[0] = 0\n",
          "        self.__bin_ends: Final[np.ndarray] = np.zeros("], True,
         "history dependence: the row window of bin 1 survives from the "
         "previous decode call on the same encoder object (stale rows of "
         "the destination are treated as placed boxes)"),
        ("enc1_bin_start_lag", BP + "encodings/ibl_encoding_1.py",
         "            bin_start = i  # set the starting index of the bin\n",
         "            bin_start = max(0, i - 1)  # set the starting index\n",
         True, "new bin still sees the last item of the closed bin"),
        ("blocker_touching", BP + "encodings/ibl_encoding_1.py",
         "        elif (packing_i1_top_y > packing[i0, IDX_BOTTOM_Y]) \\\n",
         "        elif (packing_i1_top_y >= packing[i0, IDX_BOTTOM_Y]) \\\n",
         True, "a box whose bottom touches our top edge blocks the left "
         "move"),
    ],
}


def make_diff(rel: str, old: str, new: str) -> str:
    return "".join(difflib.unified_diff(
        old.splitlines(keepends=True), new.splitlines(keepends=True),
        fromfile="a/" + rel, tofile="b/" + rel))


def run_one(pid: str, m: tuple) -> dict:
    name, rel, old, new, breaks, note = m[:6]
    tmp = tempfile.mkdtemp(prefix="vf_mut_")
    try:
        shutil.copytree(os.path.join(REPO, "moptipyapps"),
                        os.path.join(tmp, "moptipyapps"),
                        ignore=shutil.ignore_patterns("__pycache__"))
        path = os.path.join(tmp, rel)
        with open(path, encoding="utf-8") as f:
            src = f.read()
        olds = old if isinstance(old, list) else [old]
        news = new if isinstance(new, list) else [new]
        mutated = src
        for o, n in zip(olds, news):
            if mutated.count(o) != 1:
                raise SystemExit(
                    f"{name}: pattern occurs {mutated.count(o)} times")
            mutated = mutated.replace(o, n)
        with open(path, "w", encoding="utf-8") as f:
            f.write(mutated)
        patch = f"mutation/patches/{pid}_{name}.diff"
        with open(os.path.join(VERIF, patch), "w", encoding="utf-8") as f:
            f.write(make_diff(rel, src, mutated))
        env = dict(os.environ, VERIF_REPO=tmp)
        env.setdefault("VERIF_SEED", "1")
        t0 = time.monotonic()
        p = subprocess.run([os.path.join(VERIF, "check"), pid, "quick"],
                           env=env, capture_output=True, text=True)
        wall = time.monotonic() - t0
        out = p.stdout + p.stderr
        killed = p.returncode == 1 and "VIOLATION property=" in out
        first = ""
        for line in out.splitlines():
            if line.startswith("  "):
                first = line.strip()[:300]
                break
        res = {"mutant": name, "patch": patch, "breaks_property": breaks,
               "killed": killed, "exit": p.returncode,
               "wall_s": round(wall, 1), "note": note, "first_report": first}
        if p.returncode == 2:
            res["harness_output"] = out[-1500:]
        return res
    finally:
        shutil.rmtree(tmp, ignore_errors=True)


def main() -> int:
    pid = sys.argv[1].upper()
    only = set(sys.argv[2:])
    path = os.path.join(HERE, f"{pid}.json")
    results: dict[str, dict] = {}
    if only and os.path.exists(path):
        with open(path, encoding="utf-8") as f:
            results = {r["mutant"]: r for r in json.load(f)}
    bad = 0
    for m in MUTANTS[pid]:
        if only and m[0] not in only:
            continue
        r = run_one(pid, m)
        results[r["mutant"]] = r
        ok = r["killed"] == r["breaks_property"] and r["exit"] != 2
        bad += 0 if ok else 1
        print(f"{pid} {r['mutant']}: exit={r['exit']} killed={r['killed']} "
              f"breaks={r['breaks_property']} {'' if ok else '<<< UNEXPECTED'}"
              f" [{r['wall_s']}s] {r['first_report'][:150]}", flush=True)
    order = [m[0] for m in MUTANTS[pid]]
    with open(path, "w", encoding="utf-8") as f:
        json.dump([results[n] for n in order if n in results], f, indent=1)
        f.write("\n")
    return 1 if bad else 0


if __name__ == "__main__":
    sys.exit(main())
