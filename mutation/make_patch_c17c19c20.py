#!/venv/bin/python
"""Create mutation/patches/<name>.diff from (file, old, new) replacements.

usage: make_patch_c17c19c20.py NAME FILE OLD NEW [FILE OLD NEW ...]
FILE is relative to the repository root (moptipyapps/...); OLD must occur
exactly once. Paths in the diff are a/<FILE>, b/<FILE> (patch -p1).
"""
import difflib
import os
import sys

REPO = os.environ.get("VERIF_BASE_REPO", "/repo")
HERE = os.path.dirname(os.path.abspath(__file__))


def main() -> int:
    name = sys.argv[1]
    args = sys.argv[2:]
    files: dict[str, str] = {}
    for k in range(0, len(args), 3):
        rel, old, new = args[k:k + 3]
        if rel not in files:
            with open(os.path.join(REPO, rel), encoding="utf-8") as f:
                files[rel] = f.read()
        if files[rel].count(old) != 1:
            print(f"{rel}: OLD occurs {files[rel].count(old)} times")
            return 1
        files[rel] = files[rel].replace(old, new)
    out = []
    for rel, text in files.items():
        with open(os.path.join(REPO, rel), encoding="utf-8") as f:
            orig = f.read()
        out.extend(difflib.unified_diff(
            orig.splitlines(True), text.splitlines(True),
            f"a/{rel}", f"b/{rel}"))
    path = os.path.join(HERE, "patches", f"{name}.diff")
    with open(path, "w", encoding="utf-8") as f:
        f.writelines(out)
    print(path)
    return 0


if __name__ == "__main__":
    sys.exit(main())
